package spec

import (
	"fmt"
	"sort"
)

// Val is the reference value of a slice.
type Val struct {
	T      Type
	NShard int
	// Rows holds all rows. If Ordered, they are in scan order (shard-major).
	Rows    []Row
	Ordered bool
	// Shards, if non-nil, gives the rows per shard (in order if Ordered,
	// else as a multiset).
	Shards [][]Row
	// Weak: the actual rows are only known to be a sub-multiset of Rows with
	// at most MaxCount rows (and exactly len(Rows) if len(Rows) <= MinAll).
	Weak     bool
	MaxCount int
}

// Ref is the result of the reference evaluation of a Spec.
type Ref struct {
	Vals []*Val
	// Calls is the expected number of user-function calls per node (-1: unspecified).
	Calls []int
	// HeadBelow tells, per node, whether a Head is downstream of it.
	HeadBelow []bool
	// ScanBelow tells, per node, whether a Scan operator is downstream of it.
	ScanBelow []bool
	// Shared tells, per node, whether it or a node downstream of it has more
	// than one consumer (its tasks may then legitimately be compiled, and
	// run, once per distinct consumer partitioning).
	Shared []bool
}

func cloneRows(rs []Row) []Row { return append([]Row(nil), rs...) }

func concat(shards [][]Row) []Row {
	var out []Row
	for _, s := range shards {
		out = append(out, s...)
	}
	return out
}

// Eval evaluates s sequentially. args are the values of slice arguments.
func Eval(s *Spec, args []*Val) (*Ref, error) {
	ts, err := s.Types()
	if err != nil {
		return nil, err
	}
	ref := &Ref{Vals: make([]*Val, len(s.Nodes)), Calls: make([]int, len(s.Nodes)), HeadBelow: make([]bool, len(s.Nodes)),
		ScanBelow: make([]bool, len(s.Nodes)), Shared: make([]bool, len(s.Nodes))}
	consumers := make([]int, len(s.Nodes))
	for i := range s.Nodes {
		for _, in := range s.Nodes[i].In {
			consumers[in]++
		}
	}
	// HeadBelow, conservatively: any head reachable downstream.
	for i := len(s.Nodes) - 1; i >= 0; i-- {
		n := &s.Nodes[i]
		hb := ref.HeadBelow[i] || n.Op == "head"
		sb := ref.ScanBelow[i] || n.Op == "scan"
		if consumers[i] > 1 {
			ref.Shared[i] = true
		}
		for _, in := range n.In {
			if hb {
				ref.HeadBelow[in] = true
			}
			if sb {
				ref.ScanBelow[in] = true
			}
			if ref.Shared[i] {
				ref.Shared[in] = true
			}
		}
	}
	for i := range s.Nodes {
		n := &s.Nodes[i]
		ref.Calls[i] = -1
		v := &Val{T: ts[i]}
		var in *Val
		if len(n.In) > 0 {
			in = ref.Vals[n.In[0]]
			v.NShard = in.NShard
			v.Weak = in.Weak
			v.MaxCount = in.MaxCount
		}
		// perShard applies an order-preserving per-row transformation.
		perShard := func(f func(Row) []Row) {
			v.Ordered = in.Ordered
			for _, r := range in.Rows {
				v.Rows = append(v.Rows, f(r)...)
			}
			if in.Shards != nil {
				v.Shards = make([][]Row, len(in.Shards))
				for si, sh := range in.Shards {
					for _, r := range sh {
						v.Shards[si] = append(v.Shards[si], f(r)...)
					}
				}
			}
			if in.Weak {
				v.MaxCount = len(v.Rows)
			}
		}
		switch n.Op {
		case "const":
			v.NShard = n.Shards
			v.Ordered = true
			for j := 0; j < n.N; j++ {
				v.Rows = append(v.Rows, SourceRow(n, j))
			}
			// Placement is "contiguous, sizes differing by at most one"; only
			// unambiguous when the division is exact.
			if n.N%n.Shards == 0 {
				per := n.N / n.Shards
				v.Shards = make([][]Row, n.Shards)
				for si := range v.Shards {
					v.Shards[si] = cloneRows(v.Rows[si*per : (si+1)*per])
				}
			}
		case "readerfunc":
			v.NShard = n.Shards
			v.Ordered = true
			v.Shards = make([][]Row, n.Shards)
			for si := range v.Shards {
				v.Shards[si] = SourceShard(n, si)
			}
			v.Rows = concat(v.Shards)
		case "scanreader":
			v.NShard = n.Shards
			v.Ordered = true
			v.Shards = make([][]Row, n.Shards)
			for j := 0; j < n.N; j++ {
				v.Shards[j%n.Shards] = append(v.Shards[j%n.Shards], SourceRow(n, j))
			}
			v.Rows = concat(v.Shards)
		case "arg":
			if n.Arg >= len(args) || args[n.Arg] == nil {
				return nil, fmt.Errorf("node %d: missing argument %d", i, n.Arg)
			}
			a := args[n.Arg]
			if !a.T.Equal(*n.T) {
				return nil, fmt.Errorf("node %d: argument type %v, want %v", i, a.T, *n.T)
			}
			*v = *a
		case "readcache":
			if n.Arg >= len(args) || args[n.Arg] == nil {
				return nil, fmt.Errorf("node %d: missing cache contents %d", i, n.Arg)
			}
			*v = *args[n.Arg]
		case "map":
			inT := in.T
			perShard(func(r Row) []Row { return []Row{MapRow(n.Fn, n.M, inT, ts[i], r)} })
			ref.Calls[i] = len(in.Rows)
		case "filter":
			perShard(func(r Row) []Row {
				if FilterRow(n.M, r) {
					return []Row{r}
				}
				return nil
			})
			ref.Calls[i] = len(in.Rows)
		case "flatmap":
			perShard(func(r Row) []Row { return FlatmapRow(n.M, r) })
			ref.Calls[i] = len(in.Rows)
		case "writerfunc", "cache", "cachepartial", "prefixed":
			perShard(func(r Row) []Row { return []Row{r} })
		case "scan":
			v.Ordered = true
			v.Shards = make([][]Row, in.NShard)
		case "head":
			switch {
			case in.Weak:
				perShard(func(r Row) []Row { return []Row{r} })
				if m := n.M * in.NShard; m < v.MaxCount {
					v.MaxCount = m
				}
			case in.Shards != nil && in.Ordered:
				v.Ordered = true
				v.Shards = make([][]Row, len(in.Shards))
				for si, sh := range in.Shards {
					k := n.M
					if k > len(sh) {
						k = len(sh)
					}
					v.Shards[si] = cloneRows(sh[:k])
				}
				v.Rows = concat(v.Shards)
			case in.Shards != nil:
				// Known membership, unknown order within a shard: count is known.
				v.Weak = true
				v.Rows = cloneRows(in.Rows)
				v.Shards = nil
				cnt := 0
				for _, sh := range in.Shards {
					k := n.M
					if k > len(sh) {
						k = len(sh)
					}
					cnt += k
				}
				v.MaxCount = cnt
			default:
				v.Weak = true
				v.Rows = cloneRows(in.Rows)
				v.MaxCount = n.M * in.NShard
				if v.MaxCount > len(in.Rows) {
					v.MaxCount = len(in.Rows)
				}
			}
		case "reshuffle", "reshard", "repartition":
			if n.Op == "reshard" {
				v.NShard = n.Shards
			}
			v.Rows = cloneRows(in.Rows)
			if n.Op == "repartition" && !in.Weak {
				v.Shards = make([][]Row, v.NShard)
				for _, r := range in.Rows {
					p := PartitionRow(n.Fn, v.NShard, r)
					v.Shards[p] = append(v.Shards[p], r)
				}
				ref.Calls[i] = len(in.Rows)
			}
		case "reduce", "fold":
			if in.Weak {
				return nil, fmt.Errorf("node %d: aggregation over weak input", i)
			}
			p := in.T.Prefix
			type ent struct {
				key Row
				acc int
			}
			idx := map[string]*ent{}
			var order []string
			for _, r := range in.Rows {
				k := KeyCanon(r, p)
				e := idx[k]
				if e == nil {
					e = &ent{key: r[:p]}
					if n.Op == "reduce" {
						e.acc = r[len(r)-1].(int)
					} else {
						e.acc = FoldStep(n.Fn, 0, r)
					}
					idx[k] = e
					order = append(order, k)
					continue
				}
				if n.Op == "reduce" {
					e.acc = Combine(n.Fn, e.acc, r[len(r)-1].(int))
				} else {
					e.acc = FoldStep(n.Fn, e.acc, r)
				}
			}
			for _, k := range order {
				e := idx[k]
				v.Rows = append(v.Rows, append(append(Row(nil), e.key...), e.acc))
			}
		case "cogroup":
			p := in.T.Prefix
			type ent struct {
				key    Row
				groups [][]int
			}
			idx := map[string]*ent{}
			var order []string
			v.NShard = 0
			for gi, inIdx := range n.In {
				iv := ref.Vals[inIdx]
				if iv.Weak {
					return nil, fmt.Errorf("node %d: cogroup over weak input", i)
				}
				if iv.NShard > v.NShard {
					v.NShard = iv.NShard
				}
				for _, r := range iv.Rows {
					k := KeyCanon(r, p)
					e := idx[k]
					if e == nil {
						e = &ent{key: r[:p], groups: make([][]int, len(n.In))}
						idx[k] = e
						order = append(order, k)
					}
					e.groups[gi] = append(e.groups[gi], r[len(r)-1].(int))
				}
			}
			for _, k := range order {
				e := idx[k]
				row := append(Row(nil), e.key...)
				for _, g := range e.groups {
					if g == nil {
						g = []int{}
					}
					row = append(row, g)
				}
				v.Rows = append(v.Rows, row)
			}
		default:
			return nil, fmt.Errorf("node %d: unknown op %q", i, n.Op)
		}
		ref.Vals[i] = v
	}
	return ref, nil
}

// Multiset returns the canonical sorted rendering of rows.
func Multiset(rows []Row) []string {
	out := make([]string, len(rows))
	for i, r := range rows {
		out[i] = CanonRow(r)
	}
	sort.Strings(out)
	return out
}

// Sequence returns the canonical rendering of rows in order.
func Sequence(rows []Row) []string {
	out := make([]string, len(rows))
	for i, r := range rows {
		out[i] = CanonRow(r)
	}
	return out
}

// CompareRows checks observed rows (in scan order) against the model value.
// It returns "" if they agree, else a description of the first difference.
func CompareRows(want *Val, got []Row) string {
	g := Sequence(got)
	if want.Weak {
		if len(g) > want.MaxCount {
			return fmt.Sprintf("weak: got %d rows, at most %d allowed", len(g), want.MaxCount)
		}
		if len(want.Rows) <= want.MaxCount && false {
			return ""
		}
		avail := map[string]int{}
		for _, r := range want.Rows {
			avail[CanonRow(r)]++
		}
		for _, r := range g {
			if avail[r] == 0 {
				return fmt.Sprintf("weak: row %s not in (or over-delivered from) the input multiset", r)
			}
			avail[r]--
		}
		return ""
	}
	if want.Ordered {
		w := Sequence(want.Rows)
		return diffSeq(w, g)
	}
	w := Multiset(want.Rows)
	sort.Strings(g)
	return diffSeq(w, g)
}

func diffSeq(w, g []string) string {
	for i := 0; i < len(w) && i < len(g); i++ {
		if w[i] != g[i] {
			return fmt.Sprintf("row %d: want %s, got %s (want %d rows, got %d)", i, w[i], g[i], len(w), len(g))
		}
	}
	if len(w) != len(g) {
		if len(w) > len(g) {
			return fmt.Sprintf("missing rows: want %d, got %d; first missing %s", len(w), len(g), w[len(g)])
		}
		return fmt.Sprintf("extra rows: want %d, got %d; first extra %s", len(w), len(g), g[len(w)])
	}
	return ""
}
