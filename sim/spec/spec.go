// Package spec defines slice programs as data (a DAG of operator nodes), the
// closed row universe they compute over, the pure user functions used by the
// interpreter, and a sequential reference evaluator written from the
// operators' documentation. It does not import bigslice.
package spec

import (
	"fmt"
	"hash/fnv"
	"sort"
	"strconv"
	"strings"
)

// Key type names of the universe.
var KeyTypes = []string{"int", "int64", "string", "uint8", "uint16", "float64", "bool", "bytes"}

// Payload type names.
var PayloadTypes = []string{"string", "gob", "custom", "bytes"}

// GobVal is a payload column type encoded with gob.
type GobVal struct {
	A int
	B string
	C []int
}

// CustomVal is a payload column type with a registered custom codec.
type CustomVal struct {
	X int
	S string
}

// Type describes a slice type in the universe.
type Type struct {
	Cols   []string `json:"cols"`
	Prefix int      `json:"prefix"`
}

func (t Type) String() string { return fmt.Sprintf("%s/%d", strings.Join(t.Cols, ","), t.Prefix) }

func (t Type) Equal(u Type) bool {
	if t.Prefix != u.Prefix || len(t.Cols) != len(u.Cols) {
		return false
	}
	for i := range t.Cols {
		if t.Cols[i] != u.Cols[i] {
			return false
		}
	}
	return true
}

// IsKV tells whether t is (K, int) with prefix 1.
func (t Type) IsKV() bool {
	return len(t.Cols) == 2 && t.Cols[1] == "int" && t.Prefix == 1 && isKeyType(t.Cols[0])
}

// IsKKV tells whether t is (string, int, int).
func (t Type) IsKKV() bool {
	return len(t.Cols) == 3 && t.Cols[0] == "string" && t.Cols[1] == "int" && t.Cols[2] == "int"
}

// IsKX tells whether t is (int, payload).
func (t Type) IsKX() bool {
	return len(t.Cols) == 2 && t.Cols[0] == "int" && strings.HasPrefix(t.Cols[1], "p:") && t.Prefix == 1
}

// IsCG tells whether t is a cogroup output.
func (t Type) IsCG() bool {
	return len(t.Cols) > t.Prefix && t.Cols[len(t.Cols)-1] == "[]int"
}

func isKeyType(s string) bool {
	for _, k := range KeyTypes {
		if k == s {
			return true
		}
	}
	return false
}

// Node is one operator application.
type Node struct {
	Op string `json:"op"`
	In []int  `json:"in,omitempty"`
	// Sources.
	Shards int    `json:"shards,omitempty"`
	KT     string `json:"kt,omitempty"`
	N      int    `json:"n,omitempty"`
	Card   int    `json:"card,omitempty"`
	DSeed  int    `json:"dseed,omitempty"`
	Chunks []int  `json:"chunks,omitempty"`
	// EOFData makes the reader func return its last rows together with EOF.
	EOFData bool `json:"eofdata,omitempty"`
	// Parameters.
	Fn   string   `json:"fn,omitempty"`
	M    int      `json:"m,omitempty"`
	Prag []string `json:"prag,omitempty"`
	// Arg: for op "arg", index into the Func's slice arguments; T its type.
	Arg int   `json:"arg,omitempty"`
	T   *Type `json:"t,omitempty"`
	// Cache prefix for cache operators.
	Cache string `json:"cache,omitempty"`
	// NoCount excludes the node's function from metric counters.
	NoCount bool `json:"nocount,omitempty"`
}

// Spec is a slice program.
type Spec struct {
	Nodes []Node `json:"nodes"`
	// Tag distinguishes user-function sites of different invocations.
	Tag string `json:"tag,omitempty"`
}

// Root is the index of the result node (always the last).
func (s *Spec) Root() int { return len(s.Nodes) - 1 }

// Site names the user-function site of node i.
func (s *Spec) Site(i int) string {
	return fmt.Sprintf("%s.n%d.%s", s.Tag, i, s.Nodes[i].Op)
}

// --- Universe helpers (pure; shared by the interpreter's user functions and the reference) ---

// Hash is a stable hash of a string.
func Hash(s string) uint64 {
	h := fnv.New64a()
	h.Write([]byte(s))
	x := h.Sum64()
	x ^= x >> 33
	x *= 0xff51afd7ed558ccd
	x ^= x >> 33
	return x
}

// KeyOf maps a small non-negative integer j to a key of type kt.
func KeyOf(kt string, j int) interface{} {
	switch kt {
	case "int":
		return j*7 - 3
	case "int64":
		return int64(j)<<33 - int64(j)*5 + 1
	case "string":
		if j == 0 {
			return ""
		}
		if j%5 == 4 {
			// Some keys are long (more than a machine word or a short-string fast path).
			return "long-key-" + strconv.Itoa(j) + "-" + strings.Repeat("abcdefghij", 3+j%3)
		}
		return "k" + strconv.Itoa(j*j) + strings.Repeat("x", j%4)
	case "uint8":
		return uint8(j * 37)
	case "uint16":
		return uint16(j * 40503)
	case "float64":
		return float64(j)/2 - 1
	case "bool":
		return j%2 == 1
	case "bytes":
		if j == 0 {
			return []byte{}
		}
		return []byte("b" + strconv.Itoa(j*3))
	}
	panic("spec: bad key type " + kt)
}

// MaxCard is the largest useful cardinality for a key type.
func MaxCard(kt string) int {
	switch kt {
	case "bool":
		return 2
	case "uint8":
		return 256
	case "uint16":
		return 65536
	}
	return 1 << 30
}

// PayloadOf builds a payload value of type pt ("p:string", ...) from v.
func PayloadOf(pt string, v int) interface{} {
	switch pt {
	case "p:string":
		return "s" + strconv.Itoa(v) + strings.Repeat("y", v%5)
	case "p:gob":
		g := GobVal{A: v, B: "g" + strconv.Itoa(v%11)}
		for i := 0; i < v%3; i++ {
			g.C = append(g.C, v+i)
		}
		return g
	case "p:custom":
		return CustomVal{X: v * 3, S: strings.Repeat("c", v%4)}
	case "p:bytes":
		if v%7 == 0 {
			return []byte{}
		}
		return []byte("z" + strconv.Itoa(v))
	}
	panic("spec: bad payload type " + pt)
}

// Canon renders a column value canonically.
func Canon(v interface{}) string {
	switch x := v.(type) {
	case int:
		return "i" + strconv.Itoa(x)
	case int64:
		return "l" + strconv.FormatInt(x, 10)
	case string:
		return "s" + strconv.Quote(x)
	case uint8:
		return "b" + strconv.Itoa(int(x))
	case uint16:
		return "w" + strconv.Itoa(int(x))
	case float64:
		return "f" + strconv.FormatFloat(x, 'g', -1, 64)
	case bool:
		if x {
			return "T"
		}
		return "F"
	case []byte:
		return "y" + strconv.Quote(string(x))
	case []int:
		// Group: order-insensitive.
		c := append([]int(nil), x...)
		sort.Ints(c)
		var b strings.Builder
		b.WriteString("g[")
		for i, e := range c {
			if i > 0 {
				b.WriteByte(' ')
			}
			b.WriteString(strconv.Itoa(e))
		}
		b.WriteString("]")
		return b.String()
	case GobVal:
		return fmt.Sprintf("G{%d %q %v}", x.A, x.B, x.C)
	case CustomVal:
		return fmt.Sprintf("C{%d %q}", x.X, x.S)
	case nil:
		return "nil"
	}
	return fmt.Sprintf("?%T:%v", v, v)
}

// Row is one row.
type Row []interface{}

// CanonRow renders a row canonically.
func CanonRow(r Row) string {
	parts := make([]string, len(r))
	for i, v := range r {
		parts[i] = Canon(v)
	}
	return strings.Join(parts, "|")
}

// KeyCanon renders the first prefix columns.
func KeyCanon(r Row, prefix int) string {
	parts := make([]string, prefix)
	for i := 0; i < prefix; i++ {
		parts[i] = Canon(r[i])
	}
	return strings.Join(parts, "|")
}

// PayloadDigest maps a payload back to an int.
func PayloadDigest(v interface{}) int {
	return int(Hash(Canon(v)) % 1000003)
}

// SourceRow returns row i of the source node n.
func SourceRow(n *Node, i int) Row {
	card := n.Card
	if card <= 0 {
		card = 1
	}
	var j int
	switch n.DSeed % 3 {
	case 0:
		j = (i*31 + n.DSeed) % card
	case 1: // skewed: most rows share few keys
		j = int(Hash(fmt.Sprint(n.DSeed, i))%uint64(card)) * int(Hash(fmt.Sprint("s", i))%3) / 2 % card
	default:
		j = i % card
	}
	switch n.Fn {
	case "lines":
		return Row{strconv.Itoa(i*3+n.DSeed) + ":" + strconv.Itoa(j)}
	}
	return Row{KeyOf(n.KT, j), i*2 + n.DSeed%2}
}

// SourceShard returns the rows of shard s of a reader-func source: rows are
// dealt round-robin in blocks so that shards can be empty or uneven.
func SourceShard(n *Node, shard int) []Row {
	var rows []Row
	for i := 0; i < n.N; i++ {
		if sourceShardOf(n, i) == shard {
			rows = append(rows, SourceRow(n, i))
		}
	}
	return rows
}

func sourceShardOf(n *Node, i int) int {
	switch n.DSeed % 4 {
	case 0:
		return i % n.Shards
	case 1: // contiguous blocks
		per := (n.N + n.Shards - 1) / n.Shards
		return i / per
	case 2: // everything in the last shard but one row
		if i == 0 {
			return 0
		}
		return n.Shards - 1
	default:
		return int(Hash(fmt.Sprint("sh", n.DSeed, i)) % uint64(n.Shards))
	}
}

// --- user function semantics (pure) ---

// MapRow applies map variant fn to a row.
func MapRow(fn string, m int, inT, outT Type, r Row) Row {
	switch fn {
	case "inc":
		o := append(Row(nil), r...)
		o[len(o)-1] = o[len(o)-1].(int) + m
		return o
	case "keyfold":
		return Row{KeyOf(inT.Cols[0], int(Hash(Canon(r[0]))%uint64(max1(m)))), r[1]}
	case "rekey":
		return Row{KeyOf(outT.Cols[0], int(Hash(Canon(r[0]))%uint64(max1(m)))), r[1]}
	case "widen":
		return Row{Canon(r[0]), r[1].(int) % max1(m), r[1]}
	case "narrow":
		return Row{int(Hash(Canon(r[0]))%uint64(max1(m))) + r[1].(int), r[2]}
	case "topayload":
		return Row{r[0], PayloadOf(outT.Cols[1], r[1].(int))}
	case "frompayload":
		return Row{r[0], PayloadDigest(r[1])}
	case "parse":
		s := r[0].(string)
		i := strings.IndexByte(s, ':')
		if i < 0 {
			// Not a line produced by the source: keep it visible.
			return Row{-1, int(Hash(s) % 1000)}
		}
		a, _ := strconv.Atoi(s[:i])
		b, _ := strconv.Atoi(s[i+1:])
		return Row{b, a}
	case "cgflat":
		p := inT.Prefix
		acc := 0
		for i := p; i < len(r); i++ {
			g := r[i].([]int)
			sum, sq := 0, 0
			for _, e := range g {
				sum += e
				sq += (e % 1009) * (e % 1009)
			}
			acc += (i - p + 1) * (sum + 7*sq + 1000003*len(g))
		}
		o := append(Row(nil), r[:p]...)
		return append(o, acc)
	}
	panic("spec: bad map fn " + fn)
}

// FilterRow reports whether the row is kept.
func FilterRow(m int, r Row) bool {
	return Hash("f"+CanonRow(r))%uint64(max1(m)) != 0
}

// FlatmapRow returns the rows produced from r (fan-out 0..m).
func FlatmapRow(m int, r Row) []Row {
	f := int(Hash("x"+CanonRow(r)) % uint64(m+1))
	out := make([]Row, f)
	for j := range out {
		o := append(Row(nil), r...)
		o[len(o)-1] = o[len(o)-1].(int)*16 + j
		out[j] = o
	}
	return out
}

// Combine applies reduce function fn.
func Combine(fn string, a, b int) int {
	switch fn {
	case "sum":
		return a + b
	case "min":
		if a < b {
			return a
		}
		return b
	case "xor":
		return a ^ b
	}
	panic("spec: bad reduce fn " + fn)
}

// FoldStep applies fold function fn.
func FoldStep(fn string, acc int, r Row) int {
	switch fn {
	case "sum":
		for _, v := range r[1:] {
			acc += v.(int)
		}
		return acc
	case "cnt":
		return acc + 1
	}
	panic("spec: bad fold fn " + fn)
}

// PartitionRow is the Repartition function.
func PartitionRow(fn string, nshard int, r Row) int {
	switch fn {
	case "vmod":
		v := r[len(r)-1]
		var x int
		if i, ok := v.(int); ok {
			x = i
		} else {
			x = PayloadDigest(v)
		}
		if x < 0 {
			x = -x
		}
		return x % nshard
	case "khash":
		return int(Hash("p"+Canon(r[0])) % uint64(nshard))
	case "zero":
		return 0
	}
	panic("spec: bad partition fn " + fn)
}

func max1(m int) int {
	if m < 1 {
		return 1
	}
	return m
}

// --- typing ---

// Types computes the type of every node. argTypes are the types of slice arguments.
func (s *Spec) Types() ([]Type, error) {
	ts := make([]Type, len(s.Nodes))
	for i := range s.Nodes {
		n := &s.Nodes[i]
		for _, in := range n.In {
			if in < 0 || in >= i {
				return nil, fmt.Errorf("node %d: bad input %d", i, in)
			}
		}
		in0 := func() Type { return ts[n.In[0]] }
		need := func(k int) error {
			if len(n.In) != k {
				return fmt.Errorf("node %d (%s): want %d inputs, have %d", i, n.Op, k, len(n.In))
			}
			return nil
		}
		switch n.Op {
		case "const", "readerfunc":
			if !isKeyType(n.KT) || n.Shards < 1 {
				return nil, fmt.Errorf("node %d: bad source", i)
			}
			ts[i] = Type{[]string{n.KT, "int"}, 1}
		case "scanreader":
			if n.Shards < 1 {
				return nil, fmt.Errorf("node %d: bad source", i)
			}
			ts[i] = Type{[]string{"string"}, 1}
		case "arg", "readcache":
			if n.T == nil {
				return nil, fmt.Errorf("node %d: arg without type", i)
			}
			ts[i] = *n.T
		case "map":
			if err := need(1); err != nil {
				return nil, err
			}
			t := in0()
			switch n.Fn {
			case "inc":
				if t.Cols[len(t.Cols)-1] != "int" {
					return nil, fmt.Errorf("node %d: inc on %v", i, t)
				}
				ts[i] = t // Map embeds its input: the prefix is inherited
			case "keyfold":
				if !t.IsKV() {
					return nil, fmt.Errorf("node %d: keyfold on %v", i, t)
				}
				ts[i] = t
			case "rekey":
				if !t.IsKV() || !isKeyType(n.KT) {
					return nil, fmt.Errorf("node %d: rekey on %v", i, t)
				}
				ts[i] = Type{[]string{n.KT, "int"}, 1}
			case "widen":
				if !t.IsKV() {
					return nil, fmt.Errorf("node %d: widen on %v", i, t)
				}
				ts[i] = Type{[]string{"string", "int", "int"}, 1}
			case "narrow":
				if !t.IsKKV() || t.Prefix != 1 {
					return nil, fmt.Errorf("node %d: narrow on %v", i, t)
				}
				ts[i] = Type{[]string{"int", "int"}, 1}
			case "topayload":
				if !t.IsKV() || t.Cols[0] != "int" {
					return nil, fmt.Errorf("node %d: topayload on %v", i, t)
				}
				ts[i] = Type{[]string{"int", "p:" + n.KT}, 1}
			case "frompayload":
				if !t.IsKX() {
					return nil, fmt.Errorf("node %d: frompayload on %v", i, t)
				}
				ts[i] = Type{[]string{"int", "int"}, 1}
			case "parse":
				if len(t.Cols) != 1 || t.Cols[0] != "string" {
					return nil, fmt.Errorf("node %d: parse on %v", i, t)
				}
				ts[i] = Type{[]string{"int", "int"}, 1}
			case "cgflat":
				if !t.IsCG() {
					return nil, fmt.Errorf("node %d: cgflat on %v", i, t)
				}
				c := append([]string(nil), t.Cols[:t.Prefix]...)
				ts[i] = Type{append(c, "int"), t.Prefix}
			default:
				return nil, fmt.Errorf("node %d: bad map fn %q", i, n.Fn)
			}
		case "filter", "flatmap", "head", "writerfunc", "cache", "cachepartial", "reshuffle", "reshard", "repartition":
			if err := need(1); err != nil {
				return nil, err
			}
			t := in0()
			if len(t.Cols) == 0 || t.IsCG() {
				return nil, fmt.Errorf("node %d: %s on %v", i, n.Op, t)
			}
			if n.Op == "flatmap" && t.Cols[len(t.Cols)-1] != "int" {
				return nil, fmt.Errorf("node %d: flatmap on %v", i, t)
			}
			if n.Op == "reshard" && n.Shards < 1 {
				return nil, fmt.Errorf("node %d: reshard shards", i)
			}
			ts[i] = t
		case "prefixed":
			if err := need(1); err != nil {
				return nil, err
			}
			t := in0()
			if n.M < 1 || n.M > len(t.Cols) || !t.IsKKV() || n.M > 2 {
				return nil, fmt.Errorf("node %d: prefixed %d on %v", i, n.M, t)
			}
			ts[i] = Type{t.Cols, n.M}
		case "fold":
			if err := need(1); err != nil {
				return nil, err
			}
			t := in0()
			ok := (t.IsKV() || (t.IsKKV() && t.Prefix == 1)) && (t.Cols[0] == "int" || t.Cols[0] == "int64" || t.Cols[0] == "string")
			if !ok {
				return nil, fmt.Errorf("node %d: fold on %v", i, t)
			}
			ts[i] = Type{[]string{t.Cols[0], "int"}, 1}
		case "reduce":
			if err := need(1); err != nil {
				return nil, err
			}
			t := in0()
			if !(t.IsKV() || (t.IsKKV() && t.Prefix == 2)) {
				return nil, fmt.Errorf("node %d: reduce on %v", i, t)
			}
			ts[i] = t
		case "cogroup":
			if len(n.In) < 1 || len(n.In) > 3 {
				return nil, fmt.Errorf("node %d: cogroup arity", i)
			}
			t := in0()
			if !(t.IsKV() || (t.IsKKV() && t.Prefix == 2)) {
				return nil, fmt.Errorf("node %d: cogroup on %v", i, t)
			}
			for _, in := range n.In[1:] {
				if !ts[in].Equal(t) {
					return nil, fmt.Errorf("node %d: cogroup of %v and %v", i, t, ts[in])
				}
			}
			c := append([]string(nil), t.Cols[:t.Prefix]...)
			for range n.In {
				c = append(c, "[]int")
			}
			ts[i] = Type{c, t.Prefix}
		case "scan":
			if err := need(1); err != nil {
				return nil, err
			}
			if len(in0().Cols) == 0 {
				return nil, fmt.Errorf("node %d: scan of unit", i)
			}
			ts[i] = Type{nil, 0}
		default:
			return nil, fmt.Errorf("node %d: unknown op %q", i, n.Op)
		}
	}
	return ts, nil
}
