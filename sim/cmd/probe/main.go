// Command probe runs a batch generator and dumps failing outcomes (debug aid).
package main

import (
	"encoding/json"
	"fmt"
	"os"
	"strconv"
	"sync"

	"verifsim/orch"
	"verifsim/world"
)

func main() {
	prop := os.Args[1]
	n, _ := strconv.Atoi(os.Args[2])
	seed := uint64(1)
	if len(os.Args) > 3 {
		s, _ := strconv.Atoi(os.Args[3])
		seed = uint64(s)
	}
	g := orch.Generators[prop]
	var mu sync.Mutex
	seen := map[string]int{}
	orch.Pool(16, n, func(i int) {
		c := g(seed, i)
		if c == nil {
			return
		}
		o := orch.RunCase(c, orch.RunOpts{})
		if o.Verdict == "ok" {
			return
		}
		mu.Lock()
		defer mu.Unlock()
		key := o.Verdict + ":" + o.Class
		seen[key]++
		if seen[key] <= 2 {
			cb, _ := json.Marshal(c)
			fmt.Printf("=== case %d %s\n%s\n  detail: %s\n", i, key, cb, o.Detail)
			if o.Stack != "" {
				st := o.Stack
				if len(st) > 3000 {
					st = st[:3000]
				}
				fmt.Printf("  stack: %s\n", st)
			}
			for _, l := range o.LogTail {
				if len(l) > 300 {
					l = l[:300]
				}
				fmt.Printf("  log: %s\n", l)
			}
			os.WriteFile(fmt.Sprintf("/verif/.work/tmp/probe-%s-%d.json", prop, i), cb, 0o644)
		}
	})
	fmt.Println(seen)
	orch.Cleanup()
	_ = world.Case{}
}
