// Command orch is the orchestrator of the deterministic-simulation checks.
package main

import (
	"flag"
	"fmt"
	"os"
	"strconv"

	"verifsim/orch"
)

func main() {
	if len(os.Args) < 2 {
		fmt.Fprintln(os.Stderr, "usage: orch check <property> [--tier quick|thorough] | replay <file> | selftest")
		os.Exit(2)
	}
	defer orch.Cleanup()
	switch os.Args[1] {
	case "check":
		fs := flag.NewFlagSet("check", flag.ExitOnError)
		tier := fs.String("tier", envOr("VERIF_TIER", "quick"), "quick or thorough")
		if len(os.Args) < 3 {
			fmt.Fprintln(os.Stderr, "usage: orch check <property> [--tier quick|thorough]")
			os.Exit(2)
		}
		prop := os.Args[2]
		fs.Parse(os.Args[3:])
		seed := uint64(1)
		if s := os.Getenv("VERIF_SEED"); s != "" {
			v, err := strconv.ParseUint(s, 10, 64)
			if err != nil {
				if iv, err2 := strconv.ParseInt(s, 10, 64); err2 == nil {
					v = uint64(iv)
				} else {
					fmt.Fprintf(os.Stderr, "bad VERIF_SEED %q\n", s)
					os.Exit(2)
				}
			}
			seed = v
		}
		f := orch.Checks[prop]
		if f == nil {
			fmt.Fprintf(os.Stderr, "unknown property %s\n", prop)
			os.Exit(2)
		}
		code := f(*tier, seed)
		orch.Cleanup()
		os.Exit(code)
	case "replay":
		if len(os.Args) < 3 {
			fmt.Fprintln(os.Stderr, "usage: orch replay <file>")
			os.Exit(2)
		}
		code := orch.Replay(os.Args[2])
		orch.Cleanup()
		os.Exit(code)
	case "run-case":
		code := orch.RunCaseFile(os.Args[2])
		orch.Cleanup()
		os.Exit(code)
	case "selftest":
		code := orch.SelfTest(os.Args[2:])
		orch.Cleanup()
		os.Exit(code)
	default:
		fmt.Fprintf(os.Stderr, "unknown command %s\n", os.Args[1])
		os.Exit(2)
	}
}

func envOr(k, d string) string {
	if v := os.Getenv(k); v != "" {
		return v
	}
	return d
}
