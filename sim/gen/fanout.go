package gen

import (
	"fmt"

	"verifsim/spec"
)

// FanOut builds a program in which ONE slice (a source, optionally under a
// Materialize pragma, or the Func's slice argument when argT is non-nil, which
// must be a (key, int) type) is consumed by several operators at once — directly
// and through shuffles of different widths and with different combiners — and the
// branches are joined by a Cogroup. Variant v selects the shape.
func FanOut(r Rand, argT *spec.Type, tag string, v int) *spec.Spec {
	var nodes []spec.Node
	add := func(n spec.Node) int { nodes = append(nodes, n); return len(nodes) - 1 }
	var x, shards int
	if argT != nil {
		t := *argT
		x = add(spec.Node{Op: "arg", T: &t})
		shards = 0
	} else {
		shards = r.Pick(2, 3, 4)
		n := spec.Node{Op: "const", KT: r.PickS("int", "string"), N: r.Pick(7, 40, 300), Card: r.Pick(3, 11, 64), Shards: shards, DSeed: r.Intn(1000)}
		if r.Chance(0.5) {
			n.Op = "readerfunc"
			n.Chunks = []int{r.Pick(1, 5, 128)}
		}
		if r.Chance(0.6) {
			n.Prag = []string{"materialize"}
		}
		x = add(n)
	}
	other := r.Pick(1, 2, 5)
	var ins []int
	switch v % 7 {
	case 5, 6:
		// The same slice consumed by combiner-less shuffles of the same width under
		// DIFFERENT key prefixes: w = (k1, k2, v) is shuffled by (k1, k2) in one
		// branch (compiled first) and folded by k1 alone in the other.
		w := add(spec.Node{Op: "map", Fn: "widen", M: r.Pick(2, 3), In: []int{x}})
		p2 := add(spec.Node{Op: "prefixed", M: 2, In: []int{w}})
		var a int
		if v%7 == 5 {
			cg := add(spec.Node{Op: "cogroup", In: []int{p2}})
			a = add(spec.Node{Op: "map", Fn: "cgflat", In: []int{cg}})
		} else {
			a = add(spec.Node{Op: "reshuffle", In: []int{p2}})
		}
		p1 := add(spec.Node{Op: "prefixed", M: 1, In: []int{a}})
		ins = append(ins, add(spec.Node{Op: "fold", Fn: "cnt", In: []int{p1}}))
		ins = append(ins, add(spec.Node{Op: "fold", Fn: r.PickS("sum", "cnt"), In: []int{w}}))
	case 0: // direct consumer + shuffle into one shard
		ins = append(ins, add(spec.Node{Op: "map", Fn: "inc", M: 1, In: []int{x}}))
		ins = append(ins, add(spec.Node{Op: "reshard", Shards: 1, In: []int{x}}))
	case 1: // two different combiners over the same slice
		ins = append(ins, add(spec.Node{Op: "reduce", Fn: "sum", In: []int{x}}))
		ins = append(ins, add(spec.Node{Op: "reduce", Fn: "min", In: []int{x}}))
	case 2: // two shuffles of different widths
		ins = append(ins, add(spec.Node{Op: "reshard", Shards: 1, In: []int{x}}))
		ins = append(ins, add(spec.Node{Op: "reshard", Shards: other, In: []int{x}}))
	case 3: // direct, combining and plain shuffle consumers
		ins = append(ins, add(spec.Node{Op: "filter", M: 2, In: []int{x}}))
		ins = append(ins, add(spec.Node{Op: "reduce", Fn: "xor", In: []int{x}}))
		ins = append(ins, add(spec.Node{Op: "reshuffle", In: []int{x}}))
	case 4: // custom partitioner and hash partitioner of the same width, plus a narrower one
		ins = append(ins, add(spec.Node{Op: "repartition", Fn: "vmod", In: []int{x}}))
		ins = append(ins, add(spec.Node{Op: "reshuffle", In: []int{x}}))
		ins = append(ins, add(spec.Node{Op: "reshard", Shards: 1, In: []int{x}}))
	}
	cg := add(spec.Node{Op: "cogroup", In: ins})
	add(spec.Node{Op: "map", Fn: "cgflat", In: []int{cg}})
	s := &spec.Spec{Nodes: nodes, Tag: tag}
	if _, err := s.Types(); err != nil {
		panic(fmt.Sprintf("gen.FanOut variant %d: %v", v, err))
	}
	return s
}

// KVProgram builds a small (key, int) program of 2-4 shards: a source and a map.
func KVProgram(r Rand, tag string) *spec.Spec {
	n := spec.Node{Op: "const", KT: r.PickS("int", "string"), N: r.Pick(7, 40, 300), Card: r.Pick(3, 11, 64), Shards: r.Pick(2, 3, 4), DSeed: r.Intn(1000)}
	if r.Chance(0.5) {
		n.Op = "readerfunc"
		n.Chunks = []int{r.Pick(1, 5, 128)}
	}
	s := &spec.Spec{Tag: tag, Nodes: []spec.Node{n, {Op: "map", Fn: "inc", M: r.Pick(1, 2), In: []int{0}}}}
	if _, err := s.Types(); err != nil {
		panic(fmt.Sprintf("gen.KVProgram: %v", err))
	}
	return s
}

// StreamConsumer builds a program in which a task reads ONE encoded stream of
// several batches whose sizes shrink (a single producer: a one-shard shuffle, or
// — when argT is given — the Result of an earlier invocation), through an operator
// that pulls with destinations smaller than a batch (Filter with a partly selective
// predicate, Flatmap, Head) — the executor's codec path, which the local executor
// never takes. chunk is the configured vector size (0 = default).
func StreamConsumer(r Rand, argT *spec.Type, tag string, chunk int) *spec.Spec {
	if chunk <= 0 {
		chunk = 128
	}
	var nodes []spec.Node
	add := func(n spec.Node) int { nodes = append(nodes, n); return len(nodes) - 1 }
	var x int
	if argT != nil {
		t := *argT
		x = add(spec.Node{Op: "arg", T: &t})
	} else {
		// Distinct keys: 2..3 full batches and a shorter last one.
		n := chunk*r.Pick(2, 2, 3) + r.Pick(1, chunk/2+1, chunk-1)
		src := spec.Node{Op: "const", KT: r.PickS("int", "string"), N: n, Card: n, Shards: r.Pick(1, 1, 2), DSeed: r.Intn(1000)}
		if r.Chance(0.4) {
			src.Op = "readerfunc"
			src.Chunks = []int{r.Pick(7, 64, 1000)}
			src.EOFData = r.Chance(0.5)
		}
		x = add(src)
		switch r.Intn(3) {
		case 0:
			x = add(spec.Node{Op: "reshard", Shards: 1, In: []int{x}})
		case 1:
			x = add(spec.Node{Op: "reshard", Shards: 1, In: []int{x}})
			x = add(spec.Node{Op: "reduce", Fn: r.PickS("sum", "min"), In: []int{x}})
		default:
			if nodes[0].Shards == 1 {
				x = add(spec.Node{Op: "reduce", Fn: r.PickS("sum", "xor"), In: []int{x}})
			} else {
				x = add(spec.Node{Op: "reshard", Shards: 1, In: []int{x}})
			}
		}
	}
	switch r.Intn(4) {
	case 0:
		x = add(spec.Node{Op: "filter", M: r.Pick(2, 3, 5), In: []int{x}})
	case 1:
		x = add(spec.Node{Op: "flatmap", M: r.Pick(1, 2, 3), In: []int{x}})
	case 2:
		x = add(spec.Node{Op: "filter", M: r.Pick(2, 3), In: []int{x}})
		x = add(spec.Node{Op: "map", Fn: "inc", M: 1, In: []int{x}})
	default:
		x = add(spec.Node{Op: "flatmap", M: 2, In: []int{x}})
		x = add(spec.Node{Op: "filter", M: 3, In: []int{x}})
	}
	s := &spec.Spec{Nodes: nodes, Tag: tag}
	if _, err := s.Types(); err != nil {
		panic(fmt.Sprintf("gen.StreamConsumer: %v", err))
	}
	return s
}
