package gen

import (
	"fmt"

	"verifsim/spec"
)

// FanOut builds a program in which ONE slice (a source, optionally under a
// Materialize pragma, or the Func's slice argument when argT is non-nil, which
// must be a (key, int) type) is consumed by several operators at once — directly
// and through shuffles of different widths and with different combiners — and the
// branches are joined by a Cogroup. Variant v selects the shape.
func FanOut(r Rand, argT *spec.Type, tag string, v int) *spec.Spec {
	var nodes []spec.Node
	add := func(n spec.Node) int { nodes = append(nodes, n); return len(nodes) - 1 }
	var x, shards int
	if argT != nil {
		t := *argT
		x = add(spec.Node{Op: "arg", T: &t})
		shards = 0
	} else {
		shards = r.Pick(2, 3, 4)
		n := spec.Node{Op: "const", KT: r.PickS("int", "string"), N: r.Pick(7, 40, 300), Card: r.Pick(3, 11, 64), Shards: shards, DSeed: r.Intn(1000)}
		if r.Chance(0.5) {
			n.Op = "readerfunc"
			n.Chunks = []int{r.Pick(1, 5, 128)}
		}
		if r.Chance(0.6) {
			n.Prag = []string{"materialize"}
		}
		x = add(n)
	}
	other := r.Pick(1, 2, 5)
	var ins []int
	switch v % 5 {
	case 0: // direct consumer + shuffle into one shard
		ins = append(ins, add(spec.Node{Op: "map", Fn: "inc", M: 1, In: []int{x}}))
		ins = append(ins, add(spec.Node{Op: "reshard", Shards: 1, In: []int{x}}))
	case 1: // two different combiners over the same slice
		ins = append(ins, add(spec.Node{Op: "reduce", Fn: "sum", In: []int{x}}))
		ins = append(ins, add(spec.Node{Op: "reduce", Fn: "min", In: []int{x}}))
	case 2: // two shuffles of different widths
		ins = append(ins, add(spec.Node{Op: "reshard", Shards: 1, In: []int{x}}))
		ins = append(ins, add(spec.Node{Op: "reshard", Shards: other, In: []int{x}}))
	case 3: // direct, combining and plain shuffle consumers
		ins = append(ins, add(spec.Node{Op: "filter", M: 2, In: []int{x}}))
		ins = append(ins, add(spec.Node{Op: "reduce", Fn: "xor", In: []int{x}}))
		ins = append(ins, add(spec.Node{Op: "reshuffle", In: []int{x}}))
	case 4: // custom partitioner and hash partitioner of the same width, plus a narrower one
		ins = append(ins, add(spec.Node{Op: "repartition", Fn: "vmod", In: []int{x}}))
		ins = append(ins, add(spec.Node{Op: "reshuffle", In: []int{x}}))
		ins = append(ins, add(spec.Node{Op: "reshard", Shards: 1, In: []int{x}}))
	}
	cg := add(spec.Node{Op: "cogroup", In: ins})
	add(spec.Node{Op: "map", Fn: "cgflat", In: []int{cg}})
	s := &spec.Spec{Nodes: nodes, Tag: tag}
	if _, err := s.Types(); err != nil {
		panic(fmt.Sprintf("gen.FanOut variant %d: %v", v, err))
	}
	return s
}

// KVProgram builds a small (key, int) program of 2-4 shards: a source and a map.
func KVProgram(r Rand, tag string) *spec.Spec {
	n := spec.Node{Op: "const", KT: r.PickS("int", "string"), N: r.Pick(7, 40, 300), Card: r.Pick(3, 11, 64), Shards: r.Pick(2, 3, 4), DSeed: r.Intn(1000)}
	if r.Chance(0.5) {
		n.Op = "readerfunc"
		n.Chunks = []int{r.Pick(1, 5, 128)}
	}
	s := &spec.Spec{Tag: tag, Nodes: []spec.Node{n, {Op: "map", Fn: "inc", M: r.Pick(1, 2), In: []int{0}}}}
	if _, err := s.Types(); err != nil {
		panic(fmt.Sprintf("gen.KVProgram: %v", err))
	}
	return s
}
