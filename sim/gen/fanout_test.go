package gen

import (
	"testing"

	"verifsim/spec"
)

func TestFanOutTypes(t *testing.T) {
	r := New(1)
	for v := 0; v < 7; v++ {
		for i := 0; i < 20; i++ {
			s := FanOut(r, nil, "a", v)
			if _, err := spec.Eval(s, nil); err != nil {
				t.Fatalf("variant %d: %v", v, err)
			}
		}
		for _, kt := range []string{"int", "string"} {
			at := spec.Type{Cols: []string{kt, "int"}, Prefix: 1}
			FanOut(r, &at, "b", v)
		}
	}
}
