// Package gen generates cases: program specs, configurations and fault plans,
// all derived from one seed.
package gen

import (
	"fmt"
	"math/rand"

	"verifsim/spec"
	"verifsim/world"
)

// Rand is the single choice source of a generated case.
type Rand struct{ *rand.Rand }

// New returns the choice source for seed.
func New(seed uint64) Rand { return Rand{rand.New(rand.NewSource(int64(seed)))} }

func (r Rand) Pick(xs ...int) int       { return xs[r.Intn(len(xs))] }
func (r Rand) PickS(xs ...string) string { return xs[r.Intn(len(xs))] }
func (r Rand) Chance(p float64) bool    { return r.Float64() < p }

// Mix derives a sub-seed.
func Mix(parts ...interface{}) uint64 {
	return spec.Hash(fmt.Sprint(parts...))
}

// SpecOpts tunes spec generation.
type SpecOpts struct {
	MaxOps     int
	Chunk      int  // configured vector size, to straddle
	NoWeak     bool // avoid Head in positions with a weak oracle
	NoPragmas  bool
	NoObserver bool
	Small      bool // small data
	// ArgTypes: types of slice arguments available (for prog1/prog2).
	ArgTypes []spec.Type
	// ForceOps requires these ops to be tried first (coverage steering).
	ForceOps []string
	Tag      string
	// NoScanOp avoids the unit-typed Scan operator as root.
	NoScanOp bool
	// KeyTypes restricts source key types.
	KeyTypes []string
	// Cache enables cache operators with this prefix ("" = none).
	CachePrefix string
}

type builder struct {
	r     Rand
	o     SpecOpts
	nodes []spec.Node
	types []spec.Type
	weak  []bool // node's value is weak (downstream of an ambiguous Head)
	known []bool // shard membership known
	ord   []bool // order known
	ncache int
}

func (b *builder) add(n spec.Node) int {
	b.nodes = append(b.nodes, n)
	s := &spec.Spec{Nodes: b.nodes}
	ts, err := s.Types()
	if err != nil {
		panic(fmt.Sprintf("gen: produced ill-typed spec: %v", err))
	}
	b.types = ts
	i := len(b.nodes) - 1
	var w, k, o bool
	if len(n.In) > 0 {
		w, k, o = b.weak[n.In[0]], b.known[n.In[0]], b.ord[n.In[0]]
	}
	switch n.Op {
	case "const":
		k, o = n.N%n.Shards == 0, true
	case "readerfunc", "scanreader":
		k, o = true, true
	case "arg":
		k, o = false, false
	case "reshuffle", "reshard", "reduce", "fold", "cogroup":
		k, o = false, false
	case "repartition":
		k, o = true, false
	case "head":
		if !(k && o) {
			w = true
		}
	}
	b.weak = append(b.weak, w)
	b.known = append(b.known, k)
	b.ord = append(b.ord, o)
	return i
}

func (b *builder) sizes() int {
	c := b.o.Chunk
	if c <= 0 {
		c = 128
	}
	if b.o.Small {
		return b.r.Pick(0, 1, 2, 3, 5, 8, 13, c-1, c, c+1)
	}
	return b.r.Pick(0, 1, 2, 5, 17, c-1, c, c+1, 2*c+1, 300, 3*c+7, 1000)
}

func (b *builder) shards() int { return b.r.Pick(1, 1, 2, 2, 3, 3, 4, 5, 6, 13) }

func (b *builder) keyType() string {
	if len(b.o.KeyTypes) > 0 {
		return b.r.PickS(b.o.KeyTypes...)
	}
	// int and string are over-represented: more operators apply to them.
	return b.r.PickS("int", "int", "int", "string", "string", "int64", "uint8", "uint16", "float64", "bool", "bytes")
}

func (b *builder) card(kt string, n int) int {
	c := b.r.Pick(1, 2, 3, 7, 17, 100, 1000)
	if b.r.Chance(0.2) && n > 0 {
		c = n // all distinct
	}
	if m := spec.MaxCard(kt); c > m {
		c = m
	}
	return c
}

func (b *builder) source(kt string) int {
	if kt == "" {
		kt = b.keyType()
	}
	n := b.sizes()
	if n < 0 {
		n = 0
	}
	node := spec.Node{KT: kt, N: n, Shards: b.shards(), DSeed: b.r.Intn(1000)}
	node.Card = b.card(kt, n)
	switch x := b.r.Intn(10); {
	case x < 5:
		node.Op = "const"
		if n == 0 {
			// Const needs at least a typed (possibly empty) column; fine.
		}
	case x < 9 || kt != "int":
		node.Op = "readerfunc"
		if b.r.Chance(0.6) {
			k := 1 + b.r.Intn(4)
			for i := 0; i < k; i++ {
				node.Chunks = append(node.Chunks, b.r.Pick(0, 1, 1, 2, 3, 7, 64, 128, 1000))
			}
			allZero := true
			for _, c := range node.Chunks {
				if c != 0 {
					allZero = false
				}
			}
			if allZero {
				node.Chunks = append(node.Chunks, 1)
			}
		}
		node.EOFData = b.r.Chance(0.5)
		if !b.o.NoPragmas && b.r.Chance(0.1) {
			node.Prag = b.pragma()
		}
	default:
		// scanreader + parse yields KV[int]
		node.Op = "scanreader"
		node.Fn = "lines"
		node.KT = ""
		i := b.add(node)
		return b.add(spec.Node{Op: "map", Fn: "parse", In: []int{i}})
	}
	return b.add(node)
}

func (b *builder) pragma() []string {
	switch b.r.Intn(4) {
	case 0:
		return []string{"exclusive"}
	case 1:
		return []string{"materialize"}
	case 2:
		return []string{fmt.Sprintf("procs:%d", b.r.Pick(1, 2, 3))}
	}
	return []string{"materialize", fmt.Sprintf("procs:%d", b.r.Pick(1, 2))}
}

// applicable lists operators applicable to node i.
func (b *builder) applicable(i int) []string {
	t := b.types[i]
	if len(t.Cols) == 0 {
		return nil
	}
	if b.weak[i] {
		return nil
	}
	var ops []string
	add := func(s ...string) { ops = append(ops, s...) }
	switch {
	case t.IsCG():
		add("cgflat", "cgflat", "cgflat")
		return ops
	case len(t.Cols) == 1:
		add("parse")
		return ops
	case t.IsKV():
		add("inc", "keyfold", "keyfold", "rekey", "widen", "filter", "flatmap", "head", "reduce", "reduce", "cogroup", "cogroup",
			"reshuffle", "reshard", "repartition", "writerfunc", "scan")
		if t.Cols[0] == "int" || t.Cols[0] == "int64" || t.Cols[0] == "string" {
			add("fold", "fold")
		}
		if t.Cols[0] == "int" {
			add("topayload")
		}
	case t.IsKKV():
		add("inc", "filter", "flatmap", "head", "reshuffle", "reshard", "repartition", "writerfunc", "scan", "prefixed", "prefixed")
		if t.Prefix == 2 {
			add("reduce", "reduce", "cogroup")
		} else {
			add("fold", "narrow", "narrow")
		}
	case t.IsKX():
		add("frompayload", "frompayload", "filter", "head", "reshuffle", "reshard", "repartition", "writerfunc", "scan")
	}
	if b.o.CachePrefix != "" {
		add("cache", "cachepartial")
	}
	return ops
}

func (b *builder) apply(i int, op string) (int, bool) {
	t := b.types[i]
	in := []int{i}
	var prag []string
	if !b.o.NoPragmas && b.r.Chance(0.08) {
		prag = b.pragma()
	}
	switch op {
	case "inc":
		return b.add(spec.Node{Op: "map", Fn: "inc", M: b.r.Pick(1, 2, 5), In: in, Prag: prag}), true
	case "keyfold":
		return b.add(spec.Node{Op: "map", Fn: "keyfold", M: b.r.Pick(1, 2, 3, 5, 16), In: in, Prag: prag}), true
	case "rekey":
		kt := b.keyType()
		m := b.r.Pick(2, 3, 5, 16, 100)
		if c := spec.MaxCard(kt); m > c {
			m = c
		}
		return b.add(spec.Node{Op: "map", Fn: "rekey", KT: kt, M: m, In: in, Prag: prag}), true
	case "widen":
		return b.add(spec.Node{Op: "map", Fn: "widen", M: b.r.Pick(1, 2, 3), In: in, Prag: prag}), true
	case "narrow":
		return b.add(spec.Node{Op: "map", Fn: "narrow", M: b.r.Pick(1, 3, 10), In: in, Prag: prag}), true
	case "topayload":
		return b.add(spec.Node{Op: "map", Fn: "topayload", KT: b.r.PickS("string", "gob", "custom", "bytes"), In: in, Prag: prag}), true
	case "frompayload":
		return b.add(spec.Node{Op: "map", Fn: "frompayload", In: in, Prag: prag}), true
	case "parse":
		return b.add(spec.Node{Op: "map", Fn: "parse", In: in}), true
	case "cgflat":
		return b.add(spec.Node{Op: "map", Fn: "cgflat", In: in, Prag: prag}), true
	case "filter":
		return b.add(spec.Node{Op: "filter", M: b.r.Pick(1, 2, 3, 5, 50), In: in, Prag: prag}), true
	case "flatmap":
		return b.add(spec.Node{Op: "flatmap", M: b.r.Pick(0, 1, 2, 3, 5), In: in, Prag: prag}), true
	case "head":
		if b.o.NoWeak && !(b.known[i] && b.ord[i]) {
			return 0, false
		}
		c := b.o.Chunk
		if c <= 0 {
			c = 128
		}
		return b.add(spec.Node{Op: "head", M: b.r.Pick(0, 1, 2, 5, c-1, c, c+1, 1000), In: in}), true
	case "reduce":
		return b.add(spec.Node{Op: "reduce", Fn: b.r.PickS("sum", "sum", "min", "xor"), In: in}), true
	case "fold":
		return b.add(spec.Node{Op: "fold", Fn: b.r.PickS("sum", "cnt"), In: in}), true
	case "reshuffle":
		return b.add(spec.Node{Op: "reshuffle", In: in}), true
	case "reshard":
		return b.add(spec.Node{Op: "reshard", Shards: b.shards(), In: in}), true
	case "repartition":
		return b.add(spec.Node{Op: "repartition", Fn: b.r.PickS("vmod", "khash", "zero"), In: in}), true
	case "prefixed":
		return b.add(spec.Node{Op: "prefixed", M: 3 - t.Prefix, In: in}), true
	case "writerfunc":
		if b.o.NoObserver {
			return 0, false
		}
		return b.add(spec.Node{Op: "writerfunc", In: in}), true
	case "scan":
		if b.o.NoObserver || b.o.NoScanOp {
			return 0, false
		}
		return b.add(spec.Node{Op: "scan", In: in}), true
	case "cache", "cachepartial":
		b.ncache++
		return b.add(spec.Node{Op: op, In: in, Cache: fmt.Sprintf("%s%s-c%d", b.o.CachePrefix, b.o.Tag, b.ncache)}), true
	case "cogroup":
		// Find or make partners of the same type.
		k := b.r.Pick(1, 2, 2, 2, 3)
		ins := []int{i}
		for len(ins) < k {
			var cands []int
			for j := range b.nodes {
				if j != i && b.types[j].Equal(t) && !b.weak[j] {
					dup := false
					for _, x := range ins {
						if x == j {
							dup = true
						}
					}
					if !dup {
						cands = append(cands, j)
					}
				}
			}
			if len(cands) > 0 && b.r.Chance(0.6) {
				ins = append(ins, cands[b.r.Intn(len(cands))])
				continue
			}
			if t.IsKV() {
				ins = append(ins, b.source(t.Cols[0]))
				if !b.types[ins[len(ins)-1]].Equal(t) {
					ins = ins[:len(ins)-1]
					break
				}
			} else {
				break
			}
		}
		return b.add(spec.Node{Op: "cogroup", In: ins}), true
	}
	return 0, false
}

// Spec generates a random well-typed program.
func Spec(r Rand, o SpecOpts) *spec.Spec {
	b := &builder{r: r, o: o}
	if o.MaxOps <= 0 {
		o.MaxOps = 6
	}
	for ai, at := range o.ArgTypes {
		t := at
		b.add(spec.Node{Op: "arg", Arg: ai, T: &t})
	}
	if len(o.ArgTypes) == 0 || r.Chance(0.3) {
		b.source("")
	}
	nops := 1 + r.Intn(o.MaxOps)
	cur := len(b.nodes) - 1
	if len(o.ArgTypes) > 0 {
		cur = r.Intn(len(o.ArgTypes))
	}
	force := append([]string(nil), o.ForceOps...)
	for k := 0; k < nops; k++ {
		ops := b.applicable(cur)
		if len(ops) == 0 {
			break
		}
		var op string
		if len(force) > 0 {
			for _, x := range ops {
				if x == force[0] {
					op = x
				}
			}
			if op != "" {
				force = force[1:]
			}
		}
		if op == "" {
			op = ops[r.Intn(len(ops))]
		}
		if (op == "scan" || op == "head") && k < nops-1 && r.Chance(0.7) {
			continue // mostly keep terminal-ish operators for the end
		}
		j, ok := b.apply(cur, op)
		if !ok {
			continue
		}
		cur = j
		// Occasionally branch from an earlier node (shared sub-slices).
		if r.Chance(0.12) && k < nops-1 {
			alt := r.Intn(len(b.nodes))
			if len(b.applicable(alt)) > 0 && alt != cur {
				// Continue from alt but make sure cur stays reachable by
				// joining later through cogroup if types allow; else just
				// continue from cur.
				if b.types[alt].Equal(b.types[cur]) && (b.types[cur].IsKV() || (b.types[cur].IsKKV() && b.types[cur].Prefix == 2)) {
					cur = b.add(spec.Node{Op: "cogroup", In: []int{cur, alt}})
				}
			}
		}
	}
	s := &spec.Spec{Nodes: b.nodes, Tag: o.Tag}
	return Prune(s, cur)
}

// Prune removes nodes that the root does not depend on and makes root the
// last node.
func Prune(s *spec.Spec, root int) *spec.Spec {
	need := make([]bool, len(s.Nodes))
	var mark func(i int)
	mark = func(i int) {
		if need[i] {
			return
		}
		need[i] = true
		for _, in := range s.Nodes[i].In {
			mark(in)
		}
	}
	mark(root)
	// Argument nodes keep their positions' meaning through Arg, so they can
	// be dropped freely too.
	remap := make([]int, len(s.Nodes))
	out := &spec.Spec{Tag: s.Tag}
	for i := 0; i <= root; i++ {
		if !need[i] {
			remap[i] = -1
			continue
		}
		n := s.Nodes[i]
		n.In = append([]int(nil), n.In...)
		for k := range n.In {
			n.In[k] = remap[n.In[k]]
		}
		remap[i] = len(out.Nodes)
		out.Nodes = append(out.Nodes, n)
	}
	return out
}

// Config generates an execution configuration.
func Config(r Rand, executor string) world.Config {
	c := world.Config{Executor: executor}
	if executor == "" {
		c.Executor = r.PickS("local", "cluster")
	}
	c.Procs = r.Pick(1, 2, 2, 4, 8)
	c.Parallelism = r.Pick(1, 2, 4, 4, 8, 16)
	c.MaxLoad = []float64{0, 0.5, 0.95, 1.0, 0.3}[r.Intn(5)]
	c.ShuffleReaders = r.Chance(0.5)
	c.DelaySeed = r.Uint64() % 1000000
	c.DelayProfile = r.PickS("mixed", "mixed", "ns", "ns", "wide")
	c.UserDelays = r.Chance(0.5)
	c.RTSeed = r.Uint64() % 1000000
	// The combiner hash table is sized by the chunk size and must be a power of two.
	c.Chunk = r.Pick(0, 0, 0, 1, 2, 4, 8, 16, 64, 256, 1024)
	c.SortCanary = r.Pick(0, 0, 1, 2, 5)
	return c
}

// SmallSpecs enumerates all programs made of one source followed by up to
// maxOps operators (each applied to the previous node) for the given key
// types, row counts and shard counts: the bounded-exhaustive smoke set.
func SmallSpecs(keyTypes []string, ns, shards []int, maxOps int) []*spec.Spec {
	var out []*spec.Spec
	for _, kt := range keyTypes {
		for _, n := range ns {
			for _, sh := range shards {
				for _, srcOp := range []string{"const", "readerfunc"} {
					b := &builder{r: New(1), o: SpecOpts{NoPragmas: true, Tag: "s"}}
					src := spec.Node{Op: srcOp, KT: kt, N: n, Shards: sh, Card: 5, DSeed: 2}
					if srcOp == "readerfunc" {
						src.Chunks = []int{3, 0, 200}
						src.EOFData = n%2 == 1
					}
					b.add(src)
					var rec func(b *builder, depth int)
					rec = func(b *builder, depth int) {
						out = append(out, Prune(&spec.Spec{Nodes: append([]spec.Node(nil), b.nodes...), Tag: "s"}, len(b.nodes)-1))
						if depth == maxOps {
							return
						}
						cur := len(b.nodes) - 1
						seen := map[string]bool{}
						for _, op := range b.applicable(cur) {
							if seen[op] || op == "cogroup" {
								continue
							}
							seen[op] = true
							c := &builder{r: New(uint64(len(out))), o: b.o,
								nodes: append([]spec.Node(nil), b.nodes...), types: append([]spec.Type(nil), b.types...),
								weak: append([]bool(nil), b.weak...), known: append([]bool(nil), b.known...), ord: append([]bool(nil), b.ord...)}
							if _, ok := c.apply(cur, op); ok {
								rec(c, depth+1)
							}
						}
					}
					rec(b, 0)
				}
			}
		}
	}
	return out
}
