package orch

import (
	"encoding/json"
	"fmt"
	"os"
	"strings"

	"verifsim/world"
)

// Checks maps property ids to their check functions.
var Checks = map[string]func(tier string, seed uint64) int{
	"C01": C01,
	"C02": C02,
	"C03": C03,
	"C04": C04,
	"C05": C05,
	"C06": C06,
	"C07": C07,
	"C08": C08,
	"C09": C09,
	"C10": C10,
	"C12": C12,
	"C13": C13,
	"C14": C14,
	"C15": C15,
	"C16": C16,
	"C17": C17,
	"C19": C19,
	"C20": C20,
}

// Generators maps property ids to their case generators (debug aid).
var Generators = map[string]func(seed uint64, i int) *world.Case{
	"C01": GenC01,
	"C02": GenC02,
	"C04": GenC04,
	"C05": GenC05,
	"C06": GenC06,
	"C08": GenC08,
	"C12": GenC12,
	"C13": GenC13,
	"C14": GenC14,
	"C16": GenC16,
	"C19": GenC19,
	"C20": GenC20,
}

func jsonUnmarshal(b []byte, v any) error { return json.Unmarshal(b, v) }

// Replay re-runs a replay file in a fresh process and reports whether the
// recorded violation reproduces (exit 1) or not (exit 0).
func Replay(path string) int {
	b, err := os.ReadFile(path)
	if err != nil {
		fmt.Fprintln(os.Stderr, err)
		return 2
	}
	var cdoc ReplayDoc
	if err := json.Unmarshal(b, &cdoc); err == nil && strings.HasPrefix(cdoc.Engine, "comp-") {
		cl, detail := replayComp(&cdoc, path)
		fmt.Printf("replay: engine=%s class=%q detail=%s\n", cdoc.Engine, cl, detail)
		if cl != "" {
			fmt.Printf("VIOLATION property=%s replay=%s\n", cdoc.Property, path)
			return 1
		}
		return 0
	}
	var doc struct {
		Case    *world.Case    `json:"case"`
		Outcome *world.Outcome `json:"outcome"`
	}
	if err := json.Unmarshal(b, &doc); err != nil || doc.Case == nil {
		fmt.Fprintf(os.Stderr, "bad replay file: %v\n", err)
		return 2
	}
	o := RunCase(doc.Case, RunOpts{})
	if o.Verdict == "stall" {
		o = classifyStall(doc.Case, o)
	}
	class := violationClass(o)
	fmt.Printf("replay: verdict=%s class=%s detail=%s\n", o.Verdict, o.Class, o.Detail)
	if doc.Outcome != nil {
		fmt.Printf("replay: recorded order_sha=%s now=%s; recorded seam_sha=%s now=%s\n", doc.Outcome.OrderSHA, o.OrderSHA, doc.Outcome.SeamSHA, o.SeamSHA)
	}
	if doc.Case.Expect != nil && class == doc.Case.Expect.Class {
		fmt.Printf("VIOLATION property=%s replay=%s\n", doc.Case.Property, path)
		return 1
	}
	if class != "" {
		fmt.Printf("replay: a different violation class was observed: %s\n", class)
		return 1
	}
	return 0
}

// SelfTest is defined in selftest.go.

// RunCaseFile runs a bare case file (debug aid) and prints the outcome.
func RunCaseFile(path string) int {
	b, err := os.ReadFile(path)
	if err != nil {
		fmt.Fprintln(os.Stderr, err)
		return 2
	}
	var c world.Case
	if err := json.Unmarshal(b, &c); err != nil {
		fmt.Fprintln(os.Stderr, err)
		return 2
	}
	c.WantEvents = true
	o := RunCase(&c, RunOpts{})
	fmt.Printf("verdict=%s class=%s detail=%s\n", o.Verdict, o.Class, o.Detail)
	for _, st := range o.Steps {
		fmt.Printf("  step %s %s %s err=%q rows=%d t=%v\n", st.Path, st.Op, st.ID, st.Err, st.NRows, st.SimNs)
	}
	fmt.Printf("fired=%v probes=%v sim=%.1fs events=%d\n", o.Fired, o.Probes, float64(o.SimNs)/1e9, o.NEvents)
	if os.Getenv("VERIF_SHOW_EVENTS") != "" {
		for _, e := range o.Events {
			fmt.Println("  ev:", e)
		}
	}
	for _, l := range o.LogTail {
		fmt.Println("  log:", l)
	}
	if o.Stack != "" {
		fmt.Println(o.Stack)
	}
	return 0
}
