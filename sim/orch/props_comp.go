package orch

import "fmt"

// Component-simulation checks.

func compSizes(tier string, quickN, quickBudget, thoroughN, thoroughBudget int) (int, int) {
	if tier == "quick" {
		return quickN, quickBudget
	}
	return thoroughN, thoroughBudget
}

// C03 — evaluator safety and progress.
func C03(tier string, seed uint64) int {
	n, budget := compSizes(tier, 12000, 90, 400000, 900)
	b := &CompBatch{Property: "C03", Engine: "evalsim", Tier: tier, Seed: seed, Level: "exploration", N: n, BudgetS: budget}
	return b.Run()
}

// C07 — row streams decode to the rows written; corruption is detected.
func C07(tier string, seed uint64) int {
	n, budget := compSizes(tier, 400, 100, 20000, 900)
	b := &CompBatch{Property: "C07", Engine: "streamsim", Tier: tier, Seed: seed, Level: "fault_enumeration", N: n, BudgetS: budget,
		ExtraPerProc: func(p int) []string {
			if p%2 == 1 {
				// The custom column codec decodes in place through the stream's gob decoder.
				return []string{"VERIF_CUSTOM_CODEC=gob"}
			}
			return nil
		},
		Assume: []string{"damage of large streams is restricted to error classes a CRC-32 is guaranteed to detect (one burst <= 32 bits or <= 3 bit errors per batch < 11 KB); arbitrary wide damage escapes a 32-bit checksum with probability 2^-32 and is not used as an oracle case"}}
	return b.Run()
}

// C17 — readers and scanners deliver the same rows however they are read.
func C17(tier string, seed uint64) int {
	n, budget := compSizes(tier, 2500, 100, 200000, 900)
	b := &CompBatch{Property: "C17", Engine: "readersim", Tier: tier, Seed: seed, Level: "exploration", N: n, BudgetS: budget,
		ExtraPerProc: func(p int) []string {
			chunk := []int{0, 0, 2, 4, 16, 64, 256, 1}[p%8]
			var env []string
			if p/8%2 == 1 || p%8 == 1 {
				env = append(env, "VERIF_CUSTOM_CODEC=gob")
			}
			if chunk == 0 {
				return env
			}
			return append(env, fmt.Sprintf("VERIF_CHUNK=%d", chunk))
		},
		Assume: []string{"the reader func reader (ReaderFunc) hands the whole destination to user code after zeroing it, so the 'rows beyond n stay untouched' clause is not applied to it; after a non-EOF error the contents of the destination are unspecified"}}
	return b.Run()
}

// C10 — external sort, merge and reduce-merge.
func C10(tier string, seed uint64) int {
	n, budget := compSizes(tier, 1500, 100, 100000, 900)
	b := &CompBatch{Property: "C10", Engine: "readersim", Tier: tier, Seed: seed, Level: "exploration", N: n, BudgetS: budget,
		Extra: []string{"VERIF_MODE=c10"},
		ExtraPerProc: func(p int) []string {
			chunk := []int{1, 2, 2, 4, 16, 64, 256, 128}[p%8]
			canary := []int{1, 1, 2, 5, 2, 256, 5, 1}[p%8]
			return []string{fmt.Sprintf("VERIF_CHUNK=%d", chunk), fmt.Sprintf("VERIF_SORT_CANARY=%d", canary)}
		},
		Assume: []string{"spill files are real files on a per-process tmpfs directory (no fault injection under the spiller: it uses package os directly)", "merge and reduce-merge inputs never return empty non-EOF reads (their buffers document an empty read as end of input)"}}
	return b.Run()
}

// C15 — task stores are commit-atomic; remote reads resume exactly.
func C15(tier string, seed uint64) int {
	n, budget := compSizes(tier, 1500, 100, 60000, 900)
	b := &CompBatch{Property: "C15", Engine: "storesim", Tier: tier, Seed: seed, Level: "fault_enumeration", N: n, BudgetS: budget,
		Assume: []string{"porcupine results of Unknown (timeout) are counted as inconclusive, never reported", "the retry budget is read from the policy object at run time, not hard-coded"}}
	return b.Run()
}

// C09 — combining buffers.
func C09(tier string, seed uint64) int {
	n, budget := compSizes(tier, 2500, 100, 150000, 900)
	b := &CompBatch{Property: "C09", Engine: "combsim", Tier: tier, Seed: seed, Level: "exploration", N: n, BudgetS: budget,
		ExtraPerProc: func(p int) []string {
			chunk := []int{0, 1, 2, 4, 16, 64, 256, 8}[p%8]
			if chunk == 0 {
				return nil
			}
			return []string{fmt.Sprintf("VERIF_CHUNK=%d", chunk)}
		}}
	return b.Run()
}
