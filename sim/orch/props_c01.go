package orch

import (
	"time"

	"verifsim/gen"
	"verifsim/spec"
	"verifsim/world"
)

func seedFor(seed uint64, property string, i int) uint64 {
	return gen.Mix(seed, "|", property, "|", i)
}

// runScanCase builds the standard "run, then scan" failure-free case.
func runScanCase(property string, s uint64, sp *spec.Spec, cfg world.Config) *world.Case {
	return &world.Case{
		Format: 1, Property: property, Seed: s, Config: cfg,
		Script: []world.Step{
			{Op: "run", ID: "r1", Func: "prog0", Spec: sp, MustSucceed: true},
			{Op: "scan", Of: "r1", MustSucceed: true},
		},
		Oracle: world.Oracle{Rows: true, Observers: true, Counters: true, Liveness: true},
	}
}

// GenC01 generates case i of C01.
func GenC01(seed uint64, i int) *world.Case {
	s := seedFor(seed, "C01", i)
	r := gen.New(s)
	cfg := gen.Config(r, "")
	sp := gen.Spec(r, gen.SpecOpts{MaxOps: 2 + i%6, Chunk: cfg.Chunk, Tag: "a", Small: i%3 == 0})
	if i%9 == 4 {
		// One slice consumed by several operators of the same invocation: directly,
		// through shuffles of different widths, combiners, partitioners and key prefixes.
		sp = gen.FanOut(r, nil, "a", i/9)
	}
	if i%9 == 7 {
		// A task reading one encoded stream of shrinking batches through an
		// operator that pulls with destinations smaller than a batch.
		cfg.Executor = "cluster"
		cfg.Chunk = r.Pick(0, 16, 16, 32)
		sp = gen.StreamConsumer(r, nil, "a", cfg.Chunk)
	}
	return runScanCase("C01", s, sp, cfg)
}

var smallSpecs []*spec.Spec

// C01 — programs yield exactly the prescribed rows.
func C01(tier string, seed uint64) int {
	// Bounded-exhaustive smoke set: every program of one source and up to two
	// operators over two key types, three sizes around the vector size and two shard counts.
	smallSpecs = gen.SmallSpecs([]string{"int", "string"}, []int{0, 1, 129}, []int{1, 3}, 2)
	smallRule := "one source (const/readerfunc) x key type {int,string} x rows {0,1,129} x shards {1,3}, followed by every sequence of <= 2 applicable operators"
	if tier == "quick" {
		// The quick tier runs every fourth program of the enumeration.
		var sub []*spec.Spec
		for i := 0; i < len(smallSpecs); i += 4 {
			sub = append(sub, smallSpecs[i])
		}
		smallSpecs = sub
		smallRule = "every fourth program of: " + smallRule
	}
	b := &Batch{
		Property: "C01", Tier: tier, Seed: seed, Level: "exploration",
		Rule: "seeded grammar-generated operator DAGs (sources const/readerfunc/scanreader; map/filter/flatmap/fold/head/reduce/cogroup/reshuffle/repartition/reshard/prefixed/scan/writerfunc; every ninth program is a fan-out shape: one slice consumed directly and through shuffles of different widths, combiners, partitioners and key prefixes; every ninth is a stream-consumer shape: a cluster task reading one encoded stream of shrinking batches through Filter/Flatmap) executed failure-free on the local or simulated-cluster executor under seeded virtual delays; distinct = distinct (ordered seam-event sequence, per-step result digest) pairs; non-trivial = the run executed at least one task",
		Gen: func(i int) *world.Case {
			if i < len(smallSpecs) {
				s := seedFor(seed, "C01-small", i)
				cfg := gen.Config(gen.New(s), "")
				cfg.Chunk, cfg.SortCanary = 0, 0
				return runScanCase("C01", s, smallSpecs[i], cfg)
			}
			return GenC01(seed, i-len(smallSpecs))
		},
		ExtraEvidence: func() map[string]any {
			return map[string]any{"bounded_exhaustive_programs": len(smallSpecs), "bounded_exhaustive_rule": smallRule}
		},
	}
	if tier == "quick" {
		b.N = len(smallSpecs) + 1200
	} else {
		b.N = len(smallSpecs) + 4000
		b.Budget = 25 * time.Minute
	}
	return b.Run()
}
