package orch

import (
	"time"

	"verifsim/gen"
	"verifsim/spec"
	"verifsim/world"
)

func seedFor(seed uint64, property string, i int) uint64 {
	return gen.Mix(seed, "|", property, "|", i)
}

// runScanCase builds the standard "run, then scan" failure-free case.
func runScanCase(property string, s uint64, sp *spec.Spec, cfg world.Config) *world.Case {
	return &world.Case{
		Format: 1, Property: property, Seed: s, Config: cfg,
		Script: []world.Step{
			{Op: "run", ID: "r1", Func: "prog0", Spec: sp, MustSucceed: true},
			{Op: "scan", Of: "r1", MustSucceed: true},
		},
		Oracle: world.Oracle{Rows: true, Observers: true, Counters: true, Liveness: true},
	}
}

// GenC01 generates case i of C01.
func GenC01(seed uint64, i int) *world.Case {
	s := seedFor(seed, "C01", i)
	r := gen.New(s)
	cfg := gen.Config(r, "")
	sp := gen.Spec(r, gen.SpecOpts{MaxOps: 2 + i%6, Chunk: cfg.Chunk, Tag: "a", Small: i%3 == 0})
	return runScanCase("C01", s, sp, cfg)
}

// C01 — programs yield exactly the prescribed rows.
func C01(tier string, seed uint64) int {
	b := &Batch{
		Property: "C01", Tier: tier, Seed: seed, Level: "exploration",
		Rule: "seeded grammar-generated operator DAGs (sources const/readerfunc/scanreader; map/filter/flatmap/fold/head/reduce/cogroup/reshuffle/repartition/reshard/prefixed/scan/writerfunc) executed failure-free on the local or simulated-cluster executor under seeded virtual delays; distinct = distinct (ordered seam-event sequence, per-step result digest) pairs; non-trivial = the run executed at least one task",
		Gen: func(i int) *world.Case { return GenC01(seed, i) },
	}
	if tier == "quick" {
		b.N = 1500
	} else {
		b.N = 4000
		b.Budget = 25 * time.Minute
	}
	return b.Run()
}
