package orch

import (
	"fmt"
	"time"

	"verifsim/gen"
	"verifsim/spec"
	"verifsim/world"
)

const c08K = 4

// GenC08 generates member i%c08K of group i/c08K: the same script (one or two
// invocations, the second consuming the first's result) compiled in separately
// started processes with different runtime seeds (map orders), delay seeds,
// executors and cluster shapes, but the same machine-combiner setting.
func GenC08(seed uint64, i int) *world.Case {
	g, k := i/c08K, i%c08K
	gr := gen.New(seedFor(seed, "C08-group", g))
	sp := gen.Spec(gr, gen.SpecOpts{MaxOps: 2 + g%7, Tag: "a", Small: true, NoWeak: true})
	mc := gr.Chance(0.4)
	script := []world.Step{{Op: "run", ID: "r1", Func: "prog0", Spec: sp, MustSucceed: true}}
	last := "r1"
	ts, _ := sp.Types()
	if t := ts[sp.Root()]; gr.Chance(0.5) && len(t.Cols) > 0 && !t.IsCG() && len(t.Cols) > 1 {
		sp2 := gen.Spec(gr, gen.SpecOpts{MaxOps: 3, Tag: "b", Small: true, NoWeak: true, ArgTypes: []spec.Type{t}})
		if sp2.Nodes[0].Op == "arg" {
			script = append(script, world.Step{Op: "run", ID: "r2", Func: "prog1", Spec: sp2, Args: []string{"r1"}, MustSucceed: true})
			last = "r2"
		}
	}
	if g%3 == 0 {
		// Fan-out shapes: one slice (a source, or the Result of an earlier
		// invocation) consumed directly and through several different shuffles
		// in the same invocation.
		v := g / 3
		if v%2 == 0 {
			script = []world.Step{{Op: "run", ID: "r1", Func: "prog0", Spec: gen.FanOut(gr, nil, "a", v/2), MustSucceed: true}}
			last = "r1"
		} else {
			base := gen.KVProgram(gr, "a")
			bts, _ := base.Types()
			bt := bts[base.Root()]
			script = []world.Step{
				{Op: "run", ID: "r1", Func: "prog0", Spec: base, MustSucceed: true},
				{Op: "run", ID: "r2", Func: "prog1", Spec: gen.FanOut(gr, &bt, "b", v/2), Args: []string{"r1"}, MustSucceed: true},
			}
			last = "r2"
		}
	}
	if g%6 == 1 {
		// The Result of an earlier invocation consumed through a re-keyed VIEW of it
		// (Prefixed), by a pipelined operator or by a shuffle: the new invocation's
		// tasks start at the Result whatever wraps it.
		bsp := gen.KVProgram(gr, "a")
		bsp.Nodes = append(bsp.Nodes, spec.Node{Op: "map", Fn: "widen", M: gr.Pick(2, 3), In: []int{len(bsp.Nodes) - 1}})
		bts, err := bsp.Types()
		if err != nil {
			panic(err)
		}
		bt := bts[bsp.Root()]
		cons := &spec.Spec{Tag: "b", Nodes: []spec.Node{{Op: "arg", T: &bt}, {Op: "prefixed", M: 2, In: []int{0}}}}
		switch gr.Intn(4) {
		case 0:
			cons.Nodes = append(cons.Nodes, spec.Node{Op: "map", Fn: "inc", M: 1, In: []int{1}})
		case 1:
			cons.Nodes = append(cons.Nodes, spec.Node{Op: "filter", M: 3, In: []int{1}}, spec.Node{Op: "reduce", Fn: "sum", In: []int{2}})
		case 2:
			cons.Nodes = append(cons.Nodes, spec.Node{Op: "reduce", Fn: "sum", In: []int{1}})
		default:
			cons.Nodes = append(cons.Nodes, spec.Node{Op: "flatmap", M: 2, In: []int{1}})
		}
		if _, err := cons.Types(); err != nil {
			panic(fmt.Sprintf("C08 generator (prefixed result): %v", err))
		}
		script = []world.Step{
			{Op: "run", ID: "r1", Func: "prog0", Spec: bsp, MustSucceed: true},
			{Op: "run", ID: "r2", Func: "prog1", Spec: cons, Args: []string{"r1"}, MustSucceed: true},
		}
		last = "r2"
	}
	script = append(script, world.Step{Op: "scan", Of: last, MustSucceed: true})
	s := seedFor(seed, "C08", i)
	r := gen.New(s)
	cfg := gen.Config(r, "cluster")
	if k == 3 {
		cfg.Executor = "local"
	}
	cfg.MachineCombiners = mc
	cfg.SortCanary = 0
	return &world.Case{Format: 1, Property: "C08", Seed: s, Config: cfg, Script: script,
		Oracle: world.Oracle{Rows: true, Graph: true, Liveness: true}}
}

// C08 — an invocation compiles to the same well-formed task graph everywhere.
func C08(tier string, seed uint64) int {
	groups := 250
	var budget time.Duration
	if tier != "quick" {
		groups = 1200
		budget = 20 * time.Minute
	}
	b := &Batch{
		Property: "C08", Tier: tier, Seed: seed, Level: "exploration",
		Rule: fmt.Sprintf("generated programs (one invocation, or two with the second consuming the first's Result through pipelined or shuffling operators; shared sub-slices, a Result consumed through a Prefixed view by pipelined and shuffling operators, custom partitioners, combiners with and without machine combiners) run in groups of %d separately started processes with different runtime (map/select order) seeds, delay seeds, executors and cluster shapes; in every run: well-formedness of the driver graph (acyclic, unique names, one root per result shard, one task per shard of each stage, shuffle wiring p->partition p of every producer shard with partition count == consumer shards, no pipelining across shuffle/Materialize/Result), driver graph == graph of every simulated worker that compiled the invocation, == recompilation on the driver, == recompilation after a gob round trip of the invocation; across the group: graph digests agree; distinct = distinct (ordered seam-event sequence, graph digest)", c08K),
		Gen:      func(i int) *world.Case { return GenC08(seed, i) },
		N:        groups * c08K,
		Budget:   budget,
		GroupKey: func(i int) string { return fmt.Sprintf("g%06d", i/c08K) },
		GroupCheck: func(key string, cs []*world.Case, os []*world.Outcome) (string, string, int) {
			ref := -1
			for k, o := range os {
				if o.Verdict != "ok" || o.GraphSHA == "" {
					continue
				}
				if ref < 0 {
					ref = k
					continue
				}
				if os[ref].GraphSHA != o.GraphSHA {
					return "graph-differs-across-processes", fmt.Sprintf("group %s: process %d compiled graph %s, process %d compiled %s", key, ref, os[ref].GraphSHA, k, o.GraphSHA), k
				}
			}
			return "", "", 0
		},
	}
	return b.Run()
}
