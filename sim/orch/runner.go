// Package orch is the orchestrator: it generates cases, runs each in a fresh
// child process (one simulated world per process), evaluates cross-run
// oracles, minimises failing cases, writes replay files and evidence.
package orch

import (
	"bytes"
	"context"
	"crypto/sha256"
	"encoding/json"
	"fmt"
	"os"
	osexec "os/exec"
	"path/filepath"
	"regexp"
	"strings"
	"sync"
	"sync/atomic"
	"time"

	"verifsim/world"
)

const (
	Verif   = "/verif"
	WorkDir = "/verif/.work"
)

var scratchOnce sync.Once
var scratchDir string
var caseSeq int64

// Scratch returns the per-orchestrator scratch directory (on tmpfs).
func Scratch() string {
	scratchOnce.Do(func() {
		scratchDir = fmt.Sprintf("/dev/shm/verif-orch-%d", os.Getpid())
		os.MkdirAll(scratchDir, 0o755)
	})
	return scratchDir
}

// Cleanup removes the scratch directory.
func Cleanup() {
	if scratchDir != "" {
		os.RemoveAll(scratchDir)
	}
}

// RunOpts controls one child run.
type RunOpts struct {
	Binary  string        // default world.test
	Timeout time.Duration // wall-clock budget (default 120s)
	Gomaxprocs int        // GOMAXPROCS env for the child (0: leave to child, which pins 1)
}

var panicInRepo = regexp.MustCompile(`(?m)^\s+/repo/[^\s]+\.go:\d+`)

// RunCase runs c in a fresh child process.
func RunCase(c *world.Case, o RunOpts) *world.Outcome {
	if o.Binary == "" {
		o.Binary = filepath.Join(WorkDir, "bin", "world.test")
		if c.Config.Race {
			o.Binary = filepath.Join(WorkDir, "bin", "world.race.test")
		} else if c.Config.Cgo {
			o.Binary = filepath.Join(WorkDir, "bin", "world.cgo.test")
		}
	}
	if o.Timeout == 0 {
		o.Timeout = 400 * time.Second
	}
	id := atomic.AddInt64(&caseSeq, 1)
	dir := Scratch()
	casePath := filepath.Join(dir, fmt.Sprintf("case-%d.json", id))
	outPath := filepath.Join(dir, fmt.Sprintf("out-%d.json", id))
	defer os.Remove(casePath)
	defer os.Remove(outPath)
	data, err := json.Marshal(c)
	if err != nil {
		return &world.Outcome{Verdict: "infra", Class: "marshal", Detail: err.Error()}
	}
	if err := os.WriteFile(casePath, data, 0o644); err != nil {
		return &world.Outcome{Verdict: "infra", Class: "io", Detail: err.Error()}
	}
	ctx, cancel := context.WithTimeout(context.Background(), o.Timeout)
	defer cancel()
	cmd := osexec.CommandContext(ctx, o.Binary, "-test.run", "^TestCase$", "-test.timeout", "0")
	env := []string{
		"PATH=" + os.Getenv("PATH"), "HOME=" + os.Getenv("HOME"),
		"VERIF_CASE=" + casePath, "VERIF_OUT=" + outPath,
		fmt.Sprintf("VERIF_RTSEED=%d", c.Config.RTSeed),
		"GODEBUG=asyncpreemptoff=1", "GOGC=off",
	}
	if c.Config.Chunk > 0 {
		env = append(env, fmt.Sprintf("VERIF_CHUNK=%d", c.Config.Chunk))
	}
	if c.Config.SortCanary > 0 {
		env = append(env, fmt.Sprintf("VERIF_SORT_CANARY=%d", c.Config.SortCanary))
	}
	if c.Seed%2 == 1 {
		// Half of the worlds register the in-place gob variant of the custom column codec.
		env = append(env, "VERIF_CUSTOM_CODEC=gob")
	}
	if v := os.Getenv("VERIF_LOGTAIL"); v != "" {
		env = append(env, "VERIF_LOGTAIL="+v)
	}
	if c.Config.Race {
		env = append(env, "GORACE=halt_on_error=0 exitcode=0")
	}
	cmd.Env = env
	var out bytes.Buffer
	cmd.Stdout = &out
	cmd.Stderr = &out
	cmd.Dir = dir
	start := time.Now()
	runErr := cmd.Run()
	wall := time.Since(start)
	// Remove the child's tmp dir if it crashed before cleaning up.
	if cmd.Process != nil {
		os.RemoveAll(fmt.Sprintf("/dev/shm/verif-%d", cmd.Process.Pid))
	}
	if b, err := os.ReadFile(outPath); err == nil {
		var oc world.Outcome
		if err := json.Unmarshal(b, &oc); err != nil {
			return &world.Outcome{Verdict: "infra", Class: "bad-outcome", Detail: err.Error()}
		}
		oc.WallMs = int64(wall / time.Millisecond)
		if c.Config.Race && strings.Contains(out.String(), "WARNING: DATA RACE") {
			if oc.Extra == nil {
				oc.Extra = map[string]any{}
			}
			oc.Extra["race_report"] = firstRace(out.String())
		}
		return &oc
	}
	text := out.String()
	if ctx.Err() != nil {
		return &world.Outcome{Verdict: "infra", Class: "wall-timeout", Detail: fmt.Sprintf("child exceeded %v", o.Timeout), Stack: tail(text, 4000), WallMs: int64(wall / time.Millisecond)}
	}
	// The process died without an outcome: a crash of the simulated driver.
	oc := &world.Outcome{Verdict: "infra", Class: "child-died", Detail: fmt.Sprintf("%v", runErr), Stack: tail(text, 12000), WallMs: int64(wall / time.Millisecond)}
	if strings.Contains(text, "panic:") || strings.Contains(text, "fatal error:") {
		oc.Class = "process-crash"
		if panicInRepo.MatchString(text) {
			if oc.Extra == nil {
				oc.Extra = map[string]any{}
			}
			oc.Extra["repo_frames"] = true
		}
	}
	return oc
}

func firstRace(s string) string {
	i := strings.Index(s, "WARNING: DATA RACE")
	if i < 0 {
		return ""
	}
	j := strings.Index(s[i:], "==================\n")
	if j < 0 || j > 6000 {
		j = 6000
		if i+j > len(s) {
			j = len(s) - i
		}
	}
	return s[i : i+j]
}

func tail(s string, n int) string {
	if len(s) > n {
		return s[len(s)-n:]
	}
	return s
}

// Pool runs jobs on n workers.
func Pool(n int, jobs int, f func(i int)) {
	var wg sync.WaitGroup
	ch := make(chan int)
	for w := 0; w < n; w++ {
		wg.Add(1)
		go func() {
			defer wg.Done()
			for i := range ch {
				f(i)
			}
		}()
	}
	for i := 0; i < jobs; i++ {
		ch <- i
	}
	close(ch)
	wg.Wait()
}

// CaseHash is a short content hash of a case.
func CaseHash(c *world.Case) string {
	b, _ := json.Marshal(c)
	h := sha256.Sum256(b)
	return fmt.Sprintf("%x", h[:6])
}
