package orch

import (
	"encoding/json"
	"fmt"
	osexec "os/exec"
	"path/filepath"
	"time"

	"verifsim/gen"
	"verifsim/spec"
	"verifsim/world"
)

const c05K = 8

var c05KeyKinds = []string{"int", "int64", "string", "uint8", "uint16", "float64", "bool", "bytes", "kkv2"}

// GenC05 generates member i%c05K of group i/c05K. A group fixes the key type
// and the consumer shard count; members vary everything else.
func GenC05(seed uint64, i int) *world.Case {
	return genC05(seed, i, false)
}

func genC05(seed uint64, i int, exhaustive bool) *world.Case {
	g, k := i/c05K, i%c05K
	gr := gen.New(seedFor(seed, "C05-group", g))
	kind := c05KeyKinds[g%len(c05KeyKinds)]
	S := gr.Pick(2, 3, 4, 5, 7, 13)
	card := gr.Pick(5, 17, 100, 256)
	s := seedFor(seed, "C05", i)
	r := gen.New(s)
	kt := kind
	if kind == "kkv2" {
		kt = "int"
	}
	if m := spec.MaxCard(kt); card > m {
		card = m
	}
	n := r.Pick(card, 2*card+3, 300)
	if exhaustive {
		if kt == "uint8" {
			card, n = 256, 256*2
		} else {
			card, n = 65536, 65536
		}
	}
	P := r.Pick(1, 2, 3, 6) // producer shard count
	var nodes []spec.Node
	add := func(nd spec.Node) int { nodes = append(nodes, nd); return len(nodes) - 1 }
	src := func(shards int) int {
		nd := spec.Node{Op: "const", KT: kt, N: n, Card: card, Shards: shards, DSeed: 2 + 3*r.Intn(50)} // DSeed%3==2: keys cycle through all of card
		if r.Chance(0.4) && !exhaustive {
			nd.Op = "readerfunc"
			nd.Chunks = []int{r.Pick(1, 7, 64, 1000)}
		}
		x := add(nd)
		if kind == "kkv2" {
			x = add(spec.Node{Op: "map", Fn: "widen", M: 2, In: []int{x}})
			x = add(spec.Node{Op: "prefixed", M: 2, In: []int{x}})
		}
		return x
	}
	var last int
	ops := []string{"reshard", "reduce", "cogroup", "reshuffle", "fold", "shared", "cogroup", "reused"}
	op := ops[k%len(ops)]
	if (op == "shared" || op == "reused") && kind == "kkv2" {
		op = "reshuffle"
	}
	if op == "fold" && !(kt == "int" || kt == "int64" || kt == "string") || (op == "fold" && kind == "kkv2") {
		op = "reshard"
	}
	switch op {
	case "reshard":
		if P == S {
			P++
		}
		last = add(spec.Node{Op: "reshard", Shards: S, In: []int{src(P)}})
	case "reshuffle":
		last = add(spec.Node{Op: "reshuffle", In: []int{src(S)}})
	case "reduce":
		last = add(spec.Node{Op: "reduce", Fn: "sum", In: []int{src(S)}})
	case "fold":
		last = add(spec.Node{Op: "fold", Fn: "cnt", In: []int{src(S)}})
	case "shared":
		// One source feeding a custom-partitioned and a hash-partitioned shuffle of
		// the same width in one invocation; both observed, then joined.
		x := src(S)
		a := add(spec.Node{Op: "repartition", Fn: "vmod", In: []int{x}})
		a = add(spec.Node{Op: "writerfunc", In: []int{a}})
		b := add(spec.Node{Op: "reshuffle", In: []int{x}})
		b = add(spec.Node{Op: "writerfunc", In: []int{b}})
		last = add(spec.Node{Op: "cogroup", In: []int{b, a}})
		last = add(spec.Node{Op: "map", Fn: "cgflat", In: []int{last}})
	case "reused":
		// A Result keyed by two columns, consumed by a later invocation through a
		// ONE-column view and redistributed: rows must be placed by the view's key.
		x := src(S)
		x = add(spec.Node{Op: "map", Fn: "widen", M: r.Pick(2, 3), In: []int{x}})
		x = add(spec.Node{Op: "prefixed", M: 2, In: []int{x}})
		last = add(spec.Node{Op: "reduce", Fn: "sum", In: []int{x}})
	case "cogroup":
		a := src(S)
		if P > S {
			P = S
		}
		b := src(P)
		last = add(spec.Node{Op: "cogroup", In: []int{a, b}})
		last = add(spec.Node{Op: "map", Fn: "cgflat", In: []int{last}})
	}
	add(spec.Node{Op: "writerfunc", In: []int{last}})
	sp := &spec.Spec{Tag: "a", Nodes: nodes}
	if _, err := sp.Types(); err != nil {
		panic(fmt.Sprintf("C05 generator: %v", err))
	}
	cfg := gen.Config(r, "")
	cfg.SortCanary = 0
	cfg.UserDelays = cfg.UserDelays && !exhaustive
	if cfg.Chunk == 1 {
		cfg.Chunk = 2
	}
	c := runScanCase("C05", s, sp, cfg)
	if op == "reused" {
		ts, _ := sp.Types()
		t := ts[sp.Root()]
		cons := &spec.Spec{Tag: "b", Nodes: []spec.Node{{Op: "arg", T: &t}, {Op: "prefixed", M: 1, In: []int{0}}}}
		if r.Chance(0.5) {
			cons.Nodes = append(cons.Nodes, spec.Node{Op: "reshuffle", In: []int{1}})
		} else {
			cons.Nodes = append(cons.Nodes, spec.Node{Op: "fold", Fn: "cnt", In: []int{1}})
		}
		cons.Nodes = append(cons.Nodes, spec.Node{Op: "writerfunc", In: []int{2}})
		if _, err := cons.Types(); err != nil {
			panic(fmt.Sprintf("C05 generator (reused): %v", err))
		}
		c.Script = []world.Step{
			{Op: "run", ID: "r1", Func: "prog0", Spec: sp, MustSucceed: true},
			{Op: "run", ID: "r2", Func: "prog1", Spec: cons, Args: []string{"r1"}, MustSucceed: true},
			{Op: "scan", Of: "r2", MustSucceed: true},
		}
	}
	c.Oracle.Placement = true
	c.Oracle.Counters = false
	return c
}

func placements(o *world.Outcome) map[string]map[string]int {
	if o.Extra == nil || o.Extra["placements"] == nil {
		return nil
	}
	b, _ := json.Marshal(o.Extra["placements"])
	var out map[string]map[string]int
	json.Unmarshal(b, &out)
	return out
}

// C05 — keyed redistribution: one shard per key, chosen by the key alone.
func C05(tier string, seed uint64) int {
	groups := 110
	var budget time.Duration
	nexh := 0
	if tier != "quick" {
		groups = 400
		budget = 20 * time.Minute
		nexh = 6
	}
	base := groups * c05K
	b := &Batch{
		Property: "C05", Tier: tier, Seed: seed, Level: "exploration",
		Rule: fmt.Sprintf("groups of %d simulated runs (separate OS processes) share a key type (all registered kinds incl. a 2-column prefix) and a consumer shard count and differ in redistributing operator (reshard/reshuffle/reduce/fold/cogroup; one member redistributes the two-column-keyed Result of an earlier invocation through a one-column view), producer shard count, producer kind, row count, vector size, executor, cluster shape, delay and runtime seeds; a WriterFunc directly after the operator records (shard,key); oracles: (a) no key in two shards within a run, (b) the key->shard tables of all runs of a group agree, (c) Repartition places rows where its function said (observer oracle), (d) aggregations emit each key once (rows vs reference); thorough adds exhaustive 8- and 16-bit key ranges and re-runs half of the local-executor members (parallelism >= 2) under the race detector (a report with frames in /repo is a violation); distinct = distinct (ordered seam-event sequence, result digest)", c05K),
		Gen: func(i int) *world.Case {
			if i >= base {
				// exhaustive ranges: uint8 and uint16 groups
				j := i - base
				g := 3 + (j/c05K%2)*1 // group index whose kind is uint8 (3) or uint16 (4)
				return genC05(seed, (g+9*(j/(2*c05K)))*c05K+j%c05K, true)
			}
			return GenC05(seed, i)
		},
		N:      base + nexh*c05K,
		Budget: budget,
		GroupKey: func(i int) string {
			if i >= base {
				j := i - base
				return fmt.Sprintf("x%06d", j/c05K)
			}
			return fmt.Sprintf("g%06d", i/c05K)
		},
		GroupCheck: func(key string, cs []*world.Case, os []*world.Outcome) (string, string, int) {
			table := map[string]int{}
			from := map[string]int{}
			for k, o := range os {
				for _, t := range placements(o) {
					for key2, shard := range t {
						if prev, ok := table[key2]; ok && prev != shard {
							return "placement-depends-on-producer", fmt.Sprintf("group %s: key %s is in shard %d in run %d but in shard %d in run %d", key, key2, prev, from[key2], shard, k), k
						}
						table[key2] = shard
						from[key2] = k
					}
				}
			}
			return "", "", 0
		},
	}
	if tier != "quick" {
		// Tasks of one operator running side by side in one process must not share
		// partitioner state: the thorough tier re-runs the local-executor members
		// with parallelism >= 2 under the race detector (GOMAXPROCS=1 hides such a
		// race from the rows; the detector sees it from the happens-before order).
		out, err := osexec.Command(filepath.Join(Verif, "bin", "build.sh"), "race").CombinedOutput()
		if err != nil {
			fmt.Printf("verif: building the race binary failed: %v\n%s\n", err, out)
			return 2
		}
		gen0 := b.Gen
		b.Gen = func(i int) *world.Case {
			c := gen0(i)
			if c != nil && i < base && c.Config.Executor == "local" && (i%c05K == 5 || i%2 == 0) {
				// (member 5 is the one with a Repartition.) Tasks must overlap:
				// user functions take simulated time.
				c.Config.Race = true
				c.Config.UserDelays = true
				if c.Config.DelayProfile == "none" || c.Config.DelayProfile == "" {
					c.Config.DelayProfile = "mixed"
				}
				if c.Config.Parallelism < 2 {
					c.Config.Parallelism = 4
				}
			}
			return c
		}
		b.Judge = raceJudge
	}
	return b.Run()
}
