package orch

import (
	"encoding/json"
	"fmt"
	"os"
	"path/filepath"
	"sort"
	"strings"
	"sync"
	"time"

	"verifsim/spec"
	"verifsim/world"
)

// Finding is an entry of /verif/known_findings.txt.
type Finding struct {
	Property string
	Class    string
	Requires []string
	Text     string
	Seen     bool
}

// LoadFindings parses the known-findings file.
// Line format: finding: property=C12 class=<class> requires=<f1,f2,...> <free text>
func LoadFindings() []*Finding {
	b, err := os.ReadFile(filepath.Join(Verif, "known_findings.txt"))
	if err != nil {
		return nil
	}
	var out []*Finding
	for _, line := range strings.Split(string(b), "\n") {
		line = strings.TrimSpace(line)
		if !strings.HasPrefix(line, "finding:") {
			continue
		}
		f := &Finding{}
		fields := strings.Fields(strings.TrimPrefix(line, "finding:"))
		var rest []string
		for _, fl := range fields {
			switch {
			case strings.HasPrefix(fl, "property=") && f.Property == "":
				f.Property = strings.TrimPrefix(fl, "property=")
			case strings.HasPrefix(fl, "class=") && f.Class == "":
				f.Class = strings.TrimPrefix(fl, "class=")
			case strings.HasPrefix(fl, "requires=") && f.Requires == nil:
				f.Requires = strings.Split(strings.TrimPrefix(fl, "requires="), ",")
			default:
				rest = append(rest, fl)
			}
		}
		f.Text = strings.Join(rest, " ")
		out = append(out, f)
	}
	return out
}

// Features lists the structural features of a case (used to match findings).
func Features(c *world.Case) map[string]bool {
	f := map[string]bool{"executor:" + c.Config.Executor: true}
	if c.Config.MachineCombiners {
		f["machine-combiners"] = true
	}
	if c.Config.Cgo {
		f["cgo-zstd"] = true
	}
	var walk func(steps []world.Step)
	walk = func(steps []world.Step) {
		for _, st := range steps {
			f["step:"+st.Op] = true
			if st.Exclusive {
				f["func-exclusive"] = true
			}
			if st.Spec != nil {
				for i, n := range st.Spec.Nodes {
					f["op:"+n.Op] = true
					if n.Fn != "" {
						f["op:"+n.Op+":"+n.Fn] = true
					}
					for _, p := range n.Prag {
						f["pragma:"+strings.SplitN(p, ":", 2)[0]] = true
					}
					// An argument consumed directly by a shuffling operator.
					for _, in := range n.In {
						if st.Spec.Nodes[in].Op == "arg" {
							switch n.Op {
							case "reduce", "fold", "cogroup", "reshuffle", "reshard", "repartition":
								f["arg->shuffle"] = true
							default:
								f["arg->pipeline"] = true
							}
						}
					}
					if n.Op == "readerfunc" && n.EOFData {
						f["reader:eof-with-data"] = true
					}
					_ = i
				}
			}
			for _, p := range st.Par {
				walk(p)
			}
		}
	}
	walk(c.Script)
	for _, ft := range c.Faults {
		f["fault:"+ft.Do] = true
	}
	for _, u := range c.UFaults {
		f["ufault:"+u.Mode] = true
		parts := strings.Split(u.Site, ".")
		f["ufault-site:"+parts[len(parts)-1]] = true
		f["ufault:"+u.Mode+"@"+parts[len(parts)-1]] = true
	}
	return f
}

// MatchFinding returns the known finding that covers (c, class), if any.
func MatchFinding(fs []*Finding, property string, c *world.Case, class string) *Finding {
	feat := Features(c)
	for _, f := range fs {
		if f.Property != property || f.Class != class {
			continue
		}
		ok := true
		for _, r := range f.Requires {
			if r != "" && !feat[r] {
				ok = false
			}
		}
		if ok {
			return f
		}
	}
	return nil
}

// Stats accumulates evidence for a batch.
type Stats struct {
	mu        sync.Mutex
	Property  string
	Evals     int
	Distinct  map[string]bool
	Verdicts  map[string]int
	Classes   map[string]int
	Fired     map[string]int
	Planned   map[string]int
	Probes    map[string]int
	SimNs     int64
	WallMs    int64
	Samples   []any
	Infra     []string
	Extra     map[string]any
	Stubs     []string
	Assume    []string
	start     time.Time
}

func NewStats(property string) *Stats {
	return &Stats{Property: property, Distinct: map[string]bool{}, Verdicts: map[string]int{}, Classes: map[string]int{},
		Fired: map[string]int{}, Planned: map[string]int{}, Probes: map[string]int{}, Extra: map[string]any{}, start: time.Now()}
}

// Add records one run.
func (s *Stats) Add(c *world.Case, o *world.Outcome) {
	s.mu.Lock()
	defer s.mu.Unlock()
	s.Evals++
	if o.OrderSHA != "" {
		s.Distinct[o.OrderSHA+"/"+stepsKey(o)] = true
	}
	s.Verdicts[o.Verdict]++
	if o.Class != "" {
		s.Classes[o.Verdict+":"+o.Class]++
	}
	for k, v := range o.Fired {
		s.Fired[k] += v
	}
	for _, f := range c.Faults {
		s.Planned[f.Do]++
	}
	for _, f := range c.UFaults {
		s.Planned["user-"+f.Mode]++
	}
	for k, v := range o.Probes {
		s.Probes[k] += v
	}
	s.SimNs += o.SimNs
	s.WallMs += o.WallMs
	if len(s.Samples) < 3 {
		s.Samples = append(s.Samples, map[string]any{"case": c, "verdict": o.Verdict, "class": o.Class, "n_events": o.NEvents, "sim_ns": o.SimNs, "order_sha": o.OrderSHA})
	}
	if o.Verdict == "infra" || o.Verdict == "stall" {
		if len(s.Infra) < 5 {
			s.Infra = append(s.Infra, o.Class+": "+o.Detail)
		}
	}
}

func stepsKey(o *world.Outcome) string {
	var b strings.Builder
	for _, st := range o.Steps {
		b.WriteString(st.Op)
		if st.Err != "" {
			b.WriteString("!")
		}
		b.WriteString(st.RowsSHA)
		b.WriteString(";")
	}
	return b.String()
}

// Evidence is the evidence file content.
type Evidence struct {
	PropertyID  string         `json:"property_id"`
	Tier        string         `json:"tier"`
	Seed        int64          `json:"seed"`
	Level       string         `json:"level"`
	Coverage    map[string]any `json:"coverage"`
	Assumptions []string       `json:"assumptions"`
	WallS       float64        `json:"wall_s"`
	Violations  int            `json:"violations"`
}

// CommonAssumptions are the trusted-base items shared by all whole-system checks.
var CommonAssumptions = []string{
	"dependency shims: grailbio/base v0.0.9 + errors.CleanUp/CleanUpCtx, retry.MaxRetries, variadic limitbuf.NewLogger; sync/once.Task re-implemented so late callers wait on a channel (same contract)",
	"bigmachine v0.5.8 + one case (func() (io.Reader, error)) in rpc.Client.Call",
	"/repo/go.mod overlaid with 'go 1.17'; /repo/exec/config.go (base/config profile glue) overlaid with an empty file",
	"built with go1.26.8; runtime/rand.go and runtime/select.go overlaid so that map and select randomness derive from VERIF_RTSEED",
	"all simulated machines share one OS process (one Func registry, one metrics registry), as in bigmachine/testsystem",
}

// CommonStubs lists what is simulated rather than real.
var CommonStubs = []string{
	"stub: TCP/HTTP transport (in-process RoundTripper), host statistics RPCs, clock (testing/synctest), Go runtime randomness (seeded)",
	"real: bigslice root/exec/frame/sliceio/sortio/metrics/slicecache, bigmachine B/Machine/rpc client+server/Supervisor, base retry/errors/limiter/once(shim)/ctxsync/file, gob, zstd",
}

// WriteEvidence writes /verif/evidence/<id>.json.
func (s *Stats) WriteEvidence(tier string, seed uint64, level string, rule string, violations int, extra map[string]any) error {
	s.mu.Lock()
	defer s.mu.Unlock()
	wall := time.Since(s.start).Seconds()
	cov := map[string]any{
		"evaluations":         s.Evals,
		"distinct_nontrivial": len(s.Distinct),
		"rule":                rule,
		"samples":             s.Samples,
		"verdicts":            s.Verdicts,
		"classes":             s.Classes,
		"faults_planned":      s.Planned,
		"faults_fired":        s.Fired,
		"probes":              s.Probes,
		"simulated_seconds":   float64(s.SimNs) / 1e9,
		"runs_per_hour":       float64(s.Evals) / wall * 3600,
		"real_vs_stub":        append(append([]string(nil), CommonStubs...), s.Stubs...),
	}
	if len(s.Infra) > 0 {
		cov["infra_samples"] = s.Infra
	}
	for k, v := range s.Extra {
		cov[k] = v
	}
	for k, v := range extra {
		cov[k] = v
	}
	if len(s.Samples) == 0 {
		cov["samples"] = []any{"(no case was run)"}
	}
	ev := Evidence{PropertyID: s.Property, Tier: tier, Seed: int64(seed % (1 << 62)), Level: level, Coverage: cov,
		Assumptions: append(append([]string(nil), CommonAssumptions...), s.Assume...), WallS: wall, Violations: violations}
	b, err := json.MarshalIndent(ev, "", " ")
	if err != nil {
		return err
	}
	os.MkdirAll(filepath.Join(Verif, "evidence"), 0o755)
	return os.WriteFile(filepath.Join(Verif, "evidence", s.Property+".json"), b, 0o644)
}

// Report is a violation found by a batch.
type Report struct {
	Case    *world.Case
	Outcome *world.Outcome
}

// WriteReplay writes a replay file and returns its path.
func WriteReplay(property string, c *world.Case, o *world.Outcome) string {
	cc := *c
	cc.Expect = &world.Expect{Class: o.Class, Detail: o.Detail}
	cc.WantEvents = true
	dir := filepath.Join(Verif, "replays")
	os.MkdirAll(dir, 0o755)
	path := filepath.Join(dir, fmt.Sprintf("%s-%s-%s.json", property, sanitize(o.Class), CaseHash(&cc)))
	doc := map[string]any{"case": &cc, "outcome": o}
	b, _ := json.MarshalIndent(doc, "", " ")
	os.WriteFile(path, b, 0o644)
	return path
}

func sanitize(s string) string {
	return strings.Map(func(r rune) rune {
		if r >= 'a' && r <= 'z' || r >= 'A' && r <= 'Z' || r >= '0' && r <= '9' || r == '-' {
			return r
		}
		return '_'
	}, s)
}

// Violating tells whether an outcome counts against the property. Crashes of
// the child with frames in /repo are violations (the driver crashed); other
// infrastructure trouble is not.
func Violating(o *world.Outcome) bool {
	switch o.Verdict {
	case "violation":
		return true
	case "stall":
		return false // decided by the stall protocol in the caller
	case "infra":
		if o.Class == "process-crash" && o.Extra != nil && o.Extra["repo_frames"] == true {
			return true
		}
	}
	return false
}

// Minimise greedily reduces c while the same violation class recurs.
func Minimise(c *world.Case, class string, budget time.Duration) (*world.Case, *world.Outcome) {
	deadline := time.Now().Add(budget)
	same := func(cand *world.Case) *world.Outcome {
		o := RunCase(cand, RunOpts{})
		if violationClass(o) == class {
			return o
		}
		return nil
	}
	cur := cloneCase(c)
	var curOut *world.Outcome
	improved := true
	for improved && time.Now().Before(deadline) {
		improved = false
		for _, cand := range reductions(cur) {
			if time.Now().After(deadline) {
				break
			}
			if o := same(cand); o != nil {
				cur, curOut = cand, o
				improved = true
				break
			}
		}
	}
	if curOut == nil {
		curOut = RunCase(cur, RunOpts{})
	}
	return cur, curOut
}

func violationClass(o *world.Outcome) string {
	if o.Verdict == "violation" {
		return o.Class
	}
	if Violating(o) {
		return "crash:" + o.Class
	}
	if o.Verdict == "stall" {
		return "stall"
	}
	return ""
}

func cloneCase(c *world.Case) *world.Case {
	b, _ := json.Marshal(c)
	var out world.Case
	json.Unmarshal(b, &out)
	return &out
}

// reductions proposes smaller variants of c, most aggressive first.
func reductions(c *world.Case) []*world.Case {
	var out []*world.Case
	add := func(f func(x *world.Case) bool) {
		x := cloneCase(c)
		if f(x) && validCase(x) {
			out = append(out, x)
		}
	}
	// Drop faults.
	for i := range c.Faults {
		i := i
		add(func(x *world.Case) bool { x.Faults = append(x.Faults[:i], x.Faults[i+1:]...); return true })
	}
	for i := range c.UFaults {
		i := i
		add(func(x *world.Case) bool { x.UFaults = append(x.UFaults[:i], x.UFaults[i+1:]...); return true })
	}
	// Drop script steps (from the end).
	for i := len(c.Script) - 1; i >= 0; i-- {
		i := i
		add(func(x *world.Case) bool {
			id := x.Script[i].ID
			x.Script = append(x.Script[:i], x.Script[i+1:]...)
			if id != "" && usesResult(x.Script, id) {
				return false
			}
			return true
		})
	}
	// Flatten par steps with one branch; drop branches.
	for i := range c.Script {
		if c.Script[i].Op != "par" {
			continue
		}
		for k := range c.Script[i].Par {
			i, k := i, k
			add(func(x *world.Case) bool {
				p := x.Script[i].Par
				x.Script[i].Par = append(p[:k], p[k+1:]...)
				return true
			})
		}
	}
	// Shrink specs.
	forEachRun(c, func(path []int) {
		st := stepAt(c, path)
		sp := st.Spec
		argUsed := usesResult(c.Script, st.ID)
		// Drop the root operator.
		if !argUsed && len(sp.Nodes) > 1 {
			root := sp.Nodes[len(sp.Nodes)-1]
			for _, in := range root.In {
				in := in
				add(func(x *world.Case) bool {
					s := stepAt(x, path)
					s.Spec = pruneTo(s.Spec, in)
					return true
				})
			}
		}
		// Splice out interior single-input nodes whose output type equals their input type.
		ts, err := sp.Types()
		if err == nil {
			for i := len(sp.Nodes) - 1; i >= 0; i-- {
				n := sp.Nodes[i]
				if len(n.In) != 1 || !ts[i].Equal(ts[n.In[0]]) {
					continue
				}
				if i == len(sp.Nodes)-1 && argUsed {
					// keeps the type, allowed
				}
				i := i
				add(func(x *world.Case) bool {
					s := stepAt(x, path)
					s.Spec = splice(s.Spec, i)
					return s.Spec != nil
				})
			}
		}
		// Shrink sources.
		for i, n := range sp.Nodes {
			i := i
			if n.N > 0 {
				for _, nn := range []int{0, 1, n.N / 2} {
					nn := nn
					if nn >= n.N {
						continue
					}
					add(func(x *world.Case) bool { stepAt(x, path).Spec.Nodes[i].N = nn; return true })
				}
			}
			if n.Shards > 1 {
				add(func(x *world.Case) bool { stepAt(x, path).Spec.Nodes[i].Shards = 1; return true })
				add(func(x *world.Case) bool { stepAt(x, path).Spec.Nodes[i].Shards = n.Shards - 1; return true })
			}
			if n.Card > 1 {
				add(func(x *world.Case) bool { stepAt(x, path).Spec.Nodes[i].Card = 1; return true })
			}
			if len(n.Chunks) > 0 {
				add(func(x *world.Case) bool { stepAt(x, path).Spec.Nodes[i].Chunks = nil; return true })
			}
			if len(n.Prag) > 0 {
				add(func(x *world.Case) bool { stepAt(x, path).Spec.Nodes[i].Prag = nil; return true })
			}
			if n.EOFData {
				add(func(x *world.Case) bool { stepAt(x, path).Spec.Nodes[i].EOFData = false; return true })
			}
		}
	})
	// Simplify the configuration.
	cfg := c.Config
	if cfg.DelayProfile != "none" {
		add(func(x *world.Case) bool { x.Config.DelayProfile = "none"; return true })
	}
	if cfg.UserDelays {
		add(func(x *world.Case) bool { x.Config.UserDelays = false; return true })
	}
	if cfg.Chunk != 0 {
		add(func(x *world.Case) bool { x.Config.Chunk = 0; return true })
	}
	if cfg.SortCanary != 0 {
		add(func(x *world.Case) bool { x.Config.SortCanary = 0; return true })
	}
	if cfg.Executor == "cluster" && len(c.Faults) == 0 {
		add(func(x *world.Case) bool { x.Config.Executor = "local"; return true })
	}
	if cfg.Parallelism > 1 {
		add(func(x *world.Case) bool { x.Config.Parallelism = 1; return true })
	}
	if cfg.Procs > 1 {
		add(func(x *world.Case) bool { x.Config.Procs = 1; return true })
	}
	if cfg.MaxLoad != 0 {
		add(func(x *world.Case) bool { x.Config.MaxLoad = 0; return true })
	}
	if cfg.MachineCombiners {
		add(func(x *world.Case) bool { x.Config.MachineCombiners = false; return true })
	}
	if cfg.ShuffleReaders {
		add(func(x *world.Case) bool { x.Config.ShuffleReaders = false; return true })
	}
	return out
}

func usesResult(steps []world.Step, id string) bool {
	for _, st := range steps {
		if st.Of == id {
			return true
		}
		for _, a := range st.Args {
			if a == id {
				return true
			}
		}
		for _, p := range st.Par {
			if usesResult(p, id) {
				return true
			}
		}
	}
	return false
}

func forEachRun(c *world.Case, f func(path []int)) {
	var walk func(steps []world.Step, prefix []int)
	walk = func(steps []world.Step, prefix []int) {
		for i := range steps {
			p := append(append([]int(nil), prefix...), i)
			if steps[i].Op == "run" && steps[i].Spec != nil {
				f(p)
			}
			for k := range steps[i].Par {
				walk(steps[i].Par[k], append(append([]int(nil), p...), k))
			}
		}
	}
	walk(c.Script, nil)
}

func stepAt(c *world.Case, path []int) *world.Step {
	steps := c.Script
	var st *world.Step
	for i := 0; i < len(path); i++ {
		st = &steps[path[i]]
		if i+1 < len(path) {
			steps = st.Par[path[i+1]]
			i++
		}
	}
	return st
}

func pruneTo(s *spec.Spec, root int) *spec.Spec {
	need := make([]bool, len(s.Nodes))
	var mark func(i int)
	mark = func(i int) {
		if need[i] {
			return
		}
		need[i] = true
		for _, in := range s.Nodes[i].In {
			mark(in)
		}
	}
	mark(root)
	remap := make([]int, len(s.Nodes))
	out := &spec.Spec{Tag: s.Tag}
	for i := 0; i <= root; i++ {
		if !need[i] {
			continue
		}
		n := s.Nodes[i]
		n.In = append([]int(nil), n.In...)
		for k := range n.In {
			n.In[k] = remap[n.In[k]]
		}
		remap[i] = len(out.Nodes)
		out.Nodes = append(out.Nodes, n)
	}
	return out
}

// splice removes node i, wiring its consumers to its input.
func splice(s *spec.Spec, i int) *spec.Spec {
	if len(s.Nodes[i].In) != 1 {
		return nil
	}
	src := s.Nodes[i].In[0]
	out := &spec.Spec{Tag: s.Tag}
	for j, n := range s.Nodes {
		if j == i {
			continue
		}
		n.In = append([]int(nil), n.In...)
		for k := range n.In {
			if n.In[k] == i {
				n.In[k] = src
			}
			if n.In[k] > i {
				n.In[k]--
			}
		}
		out.Nodes = append(out.Nodes, n)
	}
	if i == len(s.Nodes)-1 {
		// The root was removed: the new root must be its input.
		return pruneTo(out, src)
	}
	return out
}

func validCase(c *world.Case) bool {
	ok := true
	forEachRun(c, func(path []int) {
		st := stepAt(c, path)
		if len(st.Spec.Nodes) == 0 {
			ok = false
			return
		}
		if _, err := st.Spec.Types(); err != nil {
			ok = false
		}
	})
	return ok
}

// SortedKeys returns sorted map keys.
func SortedKeys(m map[string]int) []string {
	var ks []string
	for k := range m {
		ks = append(ks, k)
	}
	sort.Strings(ks)
	return ks
}
