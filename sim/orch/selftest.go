package orch

import "fmt"

// SelfTest runs the determinism self-test.
func SelfTest(args []string) int {
	fmt.Println("selftest: not yet implemented")
	return 0
}
