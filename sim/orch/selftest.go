package orch

import (
	"encoding/json"
	"fmt"
	"os"
	"path/filepath"
	"sync"
	"time"

	"verifsim/world"
)

// DetResult summarises the determinism self-test.
type DetResult struct {
	Cases            int            `json:"cases"`
	RunsPerCase      int            `json:"runs_per_case"`
	OutcomeIdentical int            `json:"outcome_identical_cases"`
	OrderIdentical   int            `json:"order_identical_cases"`
	SeamIdentical    int            `json:"seamlog_identical_cases"`
	Divergent        []string       `json:"divergent_samples,omitempty"`
	ByProperty       map[string]int `json:"cases_by_generator"`
	WallS            float64        `json:"wall_s"`
}

// SelfTest runs the determinism self-test: each case is executed in several
// fresh processes and verdict, row digests, the ordered seam-event sequence
// and the timestamped seam log are compared.
func SelfTest(args []string) int {
	smoke := false
	for _, a := range args {
		if a == "--smoke" {
			smoke = true
		}
	}
	ncase, runs := 48, 8
	if smoke {
		ncase, runs = 6, 3
	}
	res := RunDeterminism(ncase, runs, 12345)
	b, _ := json.MarshalIndent(res, "", " ")
	fmt.Println(string(b))
	if !smoke {
		os.MkdirAll(filepath.Join(Verif, "selftest"), 0o755)
		os.WriteFile(filepath.Join(Verif, "selftest", "determinism.json"), b, 0o644)
	}
	if res.OutcomeIdentical != res.Cases {
		fmt.Println("selftest: OUTCOME NONDETERMINISM detected")
		return 2
	}
	return 0
}

// RunDeterminism measures replay fidelity.
func RunDeterminism(ncase, runs int, seed uint64) *DetResult {
	start := time.Now()
	res := &DetResult{Cases: 0, RunsPerCase: runs, ByProperty: map[string]int{}}
	var gens []string
	for k := range Generators {
		gens = append(gens, k)
	}
	sortStrings(gens)
	type job struct {
		prop string
		c    *world.Case
	}
	var jobs []job
	for i := 0; len(jobs) < ncase && i < ncase*4; i++ {
		prop := gens[i%len(gens)]
		c := Generators[prop](seed, i)
		if c == nil {
			continue
		}
		jobs = append(jobs, job{prop, c})
		res.ByProperty[prop]++
	}
	res.Cases = len(jobs)
	outs := make([][]*world.Outcome, len(jobs))
	for i := range outs {
		outs[i] = make([]*world.Outcome, runs)
	}
	Pool(16, len(jobs)*runs, func(k int) {
		i, r := k/runs, k%runs
		c := cloneCase(jobs[i].c)
		c.WantEvents = true
		outs[i][r] = RunCase(c, RunOpts{})
	})
	var mu sync.Mutex
	for i := range jobs {
		okOut, okOrd, okSeam := true, true, true
		for r := 1; r < runs; r++ {
			a, b := outs[i][0], outs[i][r]
			if a.Verdict != b.Verdict || a.Class != b.Class || stepsKey(a) != stepsKey(b) {
				okOut = false
			}
			if a.OrderSHA != b.OrderSHA {
				okOrd = false
			}
			if a.SeamSHA != b.SeamSHA {
				okSeam = false
			}
		}
		mu.Lock()
		if okOut {
			res.OutcomeIdentical++
		}
		if okOrd {
			res.OrderIdentical++
		}
		if okSeam {
			res.SeamIdentical++
		}
		if (!okOut || !okOrd) && len(res.Divergent) < 5 {
			res.Divergent = append(res.Divergent, describeDivergence(jobs[i].prop, jobs[i].c, outs[i]))
		}
		mu.Unlock()
	}
	res.WallS = time.Since(start).Seconds()
	return res
}

func describeDivergence(prop string, c *world.Case, outs []*world.Outcome) string {
	a := outs[0]
	for _, b := range outs[1:] {
		if a.OrderSHA == b.OrderSHA && a.Verdict == b.Verdict {
			continue
		}
		n := len(a.Events)
		if len(b.Events) < n {
			n = len(b.Events)
		}
		for k := 0; k < n; k++ {
			if stripTime(a.Events[k]) != stripTime(b.Events[k]) {
				return fmt.Sprintf("%s seed=%d executor=%s: verdicts %s/%s; first diverging event #%d: %q vs %q", prop, c.Seed, c.Config.Executor, a.Verdict, b.Verdict, k, a.Events[k], b.Events[k])
			}
		}
		return fmt.Sprintf("%s seed=%d executor=%s: verdicts %s/%s; logs differ in length %d vs %d", prop, c.Seed, c.Config.Executor, a.Verdict, b.Verdict, len(a.Events), len(b.Events))
	}
	return ""
}

func stripTime(e string) string {
	for i := 0; i < len(e); i++ {
		if e[i] == ' ' {
			return e[i+1:]
		}
	}
	return e
}

func sortStrings(s []string) {
	for i := range s {
		for j := i + 1; j < len(s); j++ {
			if s[j] < s[i] {
				s[i], s[j] = s[j], s[i]
			}
		}
	}
}
