package orch

import (
	"fmt"
	"time"

	"verifsim/gen"
	"verifsim/spec"
	"verifsim/world"
)

const c04K = 9

// c04Strategy returns the k-th execution strategy for a group.
func c04Strategy(r gen.Rand, k int, sp *spec.Spec) (world.Config, *spec.Spec) {
	cfg := gen.Config(r, "")
	cfg.Chunk, cfg.SortCanary, cfg.MaxLoad, cfg.MachineCombiners = 0, 0, 0, false
	switch k {
	case 0:
		cfg.Executor, cfg.Parallelism = "local", 1
	case 1:
		cfg.Executor, cfg.Parallelism = "local", 8
	case 2:
		cfg.Executor, cfg.Parallelism, cfg.Procs = "cluster", 1, 1
	case 3:
		cfg.Executor, cfg.Parallelism, cfg.Procs = "cluster", 8, 2
	case 4:
		cfg.Executor, cfg.Parallelism, cfg.Procs, cfg.MachineCombiners = "cluster", 6, 4, true
		// Tasks of one Reduce share the machine's combine buffers: make them
		// overlap (user functions take simulated time) so that they contend.
		cfg.UserDelays = true
		if cfg.DelayProfile == "none" || cfg.DelayProfile == "" {
			cfg.DelayProfile = "mixed"
		}
	case 5:
		cfg.Executor, cfg.Parallelism, cfg.Chunk = "local", 4, r.Pick(1, 2, 4)
	case 6:
		cfg.Executor, cfg.Parallelism, cfg.Procs, cfg.Chunk, cfg.SortCanary = "cluster", 4, 2, r.Pick(2, 8), r.Pick(1, 2)
		cfg.ShuffleReaders = true
	case 7:
		// Pragmas: materialize everywhere it is allowed, procs/exclusive sprinkled.
		cfg.Executor, cfg.Parallelism, cfg.Procs, cfg.MaxLoad = "cluster", 8, 4, 0.5
		sp = cloneSpec(sp)
		for i := range sp.Nodes {
			switch sp.Nodes[i].Op {
			case "readerfunc", "map", "filter", "flatmap":
				switch r.Intn(4) {
				case 0:
					sp.Nodes[i].Prag = []string{"materialize"}
				case 1:
					sp.Nodes[i].Prag = []string{"materialize", "exclusive"}
				case 2:
					sp.Nodes[i].Prag = []string{fmt.Sprintf("procs:%d", r.Pick(1, 2, 3, 9))}
				}
			}
		}
	default:
		cfg = gen.Config(r, "")
		cfg.MachineCombiners = r.Chance(0.3)
		if cfg.Chunk == 1024 {
			cfg.Chunk = 256
		}
	}
	return cfg, sp
}

func cloneSpec(s *spec.Spec) *spec.Spec {
	out := &spec.Spec{Tag: s.Tag, Nodes: make([]spec.Node, len(s.Nodes))}
	for i, n := range s.Nodes {
		n.In = append([]int(nil), n.In...)
		n.Prag = append([]string(nil), n.Prag...)
		n.Chunks = append([]int(nil), n.Chunks...)
		out.Nodes[i] = n
	}
	return out
}

// GenC04 generates member i%c04K of group i/c04K.
func GenC04(seed uint64, i int) *world.Case {
	g, k := i/c04K, i%c04K
	gs := seedFor(seed, "C04-group", g)
	gr := gen.New(gs)
	sp := gen.Spec(gr, gen.SpecOpts{MaxOps: 2 + g%6, Tag: "a", NoWeak: true, NoPragmas: true, Small: g%4 == 0})
	if g%8 == 5 {
		// The codec path that only the cluster executor takes: one encoded stream
		// of shrinking batches pulled through Filter/Flatmap (default vector size).
		sp = gen.StreamConsumer(gr, nil, "a", 0)
	}
	s := seedFor(seed, "C04", i)
	r := gen.New(s)
	cfg, sp2 := c04Strategy(r, k, sp)
	c := runScanCase("C04", s, sp2, cfg)
	c.Oracle.Observers = false
	return c
}

// C04 — results do not depend on the execution strategy.
func C04(tier string, seed uint64) int {
	groups := 130
	var budget time.Duration
	if tier != "quick" {
		groups = 500
		budget = 25 * time.Minute
	}
	b := &Batch{
		Property: "C04", Tier: tier, Seed: seed, Level: "exploration",
		Rule: fmt.Sprintf("each generated program is executed under %d execution strategies, each in its own simulated world (local p=1, local p=8, cluster 1x1, cluster 4x2, cluster with machine combiners, tiny vector size, tiny vector+sort canary with reader shuffling, materialize/procs/exclusive pragmas, one random configuration); oracle: rows equal the reference in every world and the sorted-row digests agree across the group; user counters equal the model's per-row call counts in every world; distinct = distinct (ordered seam-event sequence, result digest)", c04K),
		Gen:      func(i int) *world.Case { return GenC04(seed, i) },
		N:        groups * c04K,
		Budget:   budget,
		GroupKey: func(i int) string { return fmt.Sprintf("g%06d", i/c04K) },
		GroupCheck: func(key string, cs []*world.Case, os []*world.Outcome) (string, string, int) {
			ref := -1
			for k, o := range os {
				if o.Verdict != "ok" {
					continue
				}
				if ref < 0 {
					ref = k
					continue
				}
				a, b := scanDigest(os[ref]), scanDigest(o)
				if a != b {
					return "strategy-dependent-rows", fmt.Sprintf("group %s: configuration %d gives rows digest %s, configuration %d gives %s", key, ref, a, k, b), k
				}
			}
			return "", "", 0
		},
	}
	return b.Run()
}

func scanDigest(o *world.Outcome) string {
	for _, st := range o.Steps {
		if st.Op == "scan" {
			return fmt.Sprintf("%s/%d", st.RowsSHA, st.NRows)
		}
	}
	return ""
}
