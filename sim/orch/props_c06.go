package orch

import (
	"fmt"
	"time"

	"verifsim/gen"
	"verifsim/spec"
	"verifsim/world"
)

type c06Combo struct {
	where   string // for reduce combiners: the call site the function must be invoked from
	tmpl    int
	node    int
	mode    string // error | temp | panic | badpart
	oneShot bool
	pos     int // 0 first, 1 vector boundary-1, 2 vector boundary, 3 last, 4 at EOF (batch sites)
	config  int // 0 local p=1, 1 local p=4, 2 cluster, 3 cluster+machine combiners
}

func c06Template(t int, tag string, r gen.Rand) *spec.Spec {
	switch t {
	case 0:
		return &spec.Spec{Tag: tag, Nodes: []spec.Node{
			{Op: "readerfunc", KT: "int", Shards: 3, N: 400, Card: 23, DSeed: 4, Chunks: []int{50, 128, 7}},
			{Op: "map", Fn: "inc", M: 1, In: []int{0}},
			{Op: "filter", M: 7, In: []int{1}},
			{Op: "flatmap", M: 2, In: []int{2}},
			{Op: "writerfunc", In: []int{3}},
			{Op: "reduce", Fn: "sum", In: []int{4}},
			{Op: "map", Fn: "keyfold", M: 5, In: []int{5}},
			{Op: "fold", Fn: "sum", In: []int{6}},
		}}
	case 1:
		return &spec.Spec{Tag: tag, Nodes: []spec.Node{
			{Op: "const", KT: "string", Shards: 2, N: 300, Card: 17, DSeed: 3},
			{Op: "repartition", Fn: "vmod", In: []int{0}},
			{Op: "writerfunc", In: []int{1}},
			{Op: "scan", In: []int{2}},
		}}
	case 3:
		// Reader and writer functions in tasks whose output feeds a shuffle WITHOUT
		// a combiner (the worker partitions the output itself).
		return &spec.Spec{Tag: tag, Nodes: []spec.Node{
			{Op: "readerfunc", KT: "int", Shards: 3, N: 600, Card: 19, DSeed: 5, Chunks: []int{50, 128, 7}},
			{Op: "writerfunc", In: []int{0}},
			{Op: "fold", Fn: "sum", In: []int{1}},
			{Op: "map", Fn: "inc", M: 1, In: []int{2}},
			{Op: "writerfunc", In: []int{3}},
			{Op: "reshuffle", In: []int{4}},
		}}
	default:
		return &spec.Spec{Tag: tag, Nodes: []spec.Node{
			{Op: "scanreader", Fn: "lines", Shards: 2, N: 200, Card: 9, DSeed: 7},
			{Op: "map", Fn: "parse", In: []int{0}},
			{Op: "reduce", Fn: "min", In: []int{1}},
		}}
	}
}

func c06Modes(op string) []string {
	switch op {
	case "readerfunc", "writerfunc", "scan":
		return []string{"error", "temp", "panic"}
	case "scanreader":
		return []string{"error", "temp"}
	case "repartition":
		return []string{"panic", "badpart"}
	case "map", "filter", "flatmap", "fold", "reduce":
		return []string{"panic"}
	}
	return nil
}

var c06Combos []c06Combo

func init() {
	for t := 0; t < 4; t++ {
		sp := c06Template(t, "a", gen.New(1))
		for ni, n := range sp.Nodes {
			for _, mode := range c06Modes(n.Op) {
				for _, one := range []bool{false, true} {
					npos := 4
					if n.Op == "readerfunc" {
						npos = 5
					}
					if n.Op == "scanreader" || n.Op == "reduce" {
						npos = 3
					}
					for pos := 0; pos < npos; pos++ {
						for cfg := 0; cfg < 4; cfg++ {
							c06Combos = append(c06Combos, c06Combo{"", t, ni, mode, one, pos, cfg})
						}
					}
					if n.Op == "reduce" {
						// The three places a reduce combiner is called from: the task-local
						// table, the shared (per-partition / machine) combine buffer, and the
						// merge on the consumer side.
						for _, where := range []string{"combiningFrame).Combine", "exec.(*combiner).Combine", "sortio.(*reader).Read"} {
							for cfg := 0; cfg < 4; cfg++ {
								c06Combos = append(c06Combos, c06Combo{where, t, ni, mode, one, 0, cfg})
							}
						}
					}
				}
			}
		}
	}
}

// c06Cycles is the number of discard-cycle scenarios per pass over the combinations.
const c06Cycles = 12

// genC06Cycle: a source that fails temporarily on the first attempt of every
// (re-)execution of one of its tasks and works on the retry, in a session where
// the Result is discarded and consumed again several times: each failure goes
// away on retry, so every run has to succeed, however many there have been.
func genC06Cycle(seed uint64, i int) *world.Case {
	s := seedFor(seed, "C06-cycle", i)
	r := gen.New(s)
	cfg := gen.Config(r, "")
	cfg.Chunk, cfg.SortCanary, cfg.MaxLoad, cfg.MachineCombiners = 0, 0, 0, false
	if i%2 == 0 {
		cfg.Executor, cfg.Parallelism = "local", r.Pick(1, 4)
	} else {
		cfg.Executor, cfg.Parallelism, cfg.Procs = "cluster", 4, 2
	}
	sp := &spec.Spec{Tag: "a", Nodes: []spec.Node{
		{Op: "readerfunc", KT: "int", Shards: 2, N: 60, Card: 11, DSeed: 4, Chunks: []int{16}},
		{Op: "map", Fn: "inc", M: 1, In: []int{0}},
	}}
	if r.Chance(0.5) {
		sp.Nodes = append(sp.Nodes, spec.Node{Op: "reduce", Fn: "sum", In: []int{1}})
	}
	ts, err := sp.Types()
	if err != nil {
		panic(err)
	}
	t := ts[sp.Root()]
	uf := &world.UFault{Site: sp.Site(0), Key: "s1@0", Mode: "temp", Every: 2}
	c := &world.Case{Format: 1, Property: "C06", Seed: s, Config: cfg, UFaults: []*world.UFault{uf},
		Oracle: world.Oracle{Rows: true, Liveness: true}}
	c.Script = append(c.Script, world.Step{Op: "run", ID: "r1", Func: "prog0", Spec: sp, MustSucceed: true})
	n := 5 + r.Intn(3)
	for k := 0; k < n; k++ {
		sp2 := &spec.Spec{Tag: fmt.Sprintf("c%d", k), Nodes: []spec.Node{{Op: "arg", T: &t}, {Op: "map", Fn: "inc", M: 1, In: []int{0}}}}
		id := fmt.Sprintf("c%d", k)
		c.Script = append(c.Script,
			world.Step{Op: "discard", Of: "r1"},
			world.Step{Op: "run", ID: id, Func: "prog1", Spec: sp2, Args: []string{"r1"}, MustSucceed: true},
			world.Step{Op: "scan", Of: id, MustSucceed: true})
	}
	return c
}

// GenC06 generates case i of C06: the cross product is enumerated first, then repeated under other seeds.
func GenC06(seed uint64, i int) *world.Case {
	if k := i % (len(c06Combos) + c06Cycles); k >= len(c06Combos) {
		return genC06Cycle(seed, i)
	} else {
		i = i/(len(c06Combos)+c06Cycles)*len(c06Combos) + k
	}
	s := seedFor(seed, "C06", i)
	r := gen.New(s)
	cb := c06Combos[i%len(c06Combos)]
	cfg := gen.Config(r, "")
	cfg.Chunk = 0
	if i >= len(c06Combos) {
		cfg.Chunk = r.Pick(0, 16, 64)
	}
	cfg.SortCanary = 0
	cfg.MaxLoad = 0
	switch cb.config {
	case 0:
		cfg.Executor, cfg.Parallelism = "local", 1
	case 1:
		cfg.Executor, cfg.Parallelism = "local", 4
	case 2:
		cfg.Executor, cfg.Parallelism, cfg.Procs = "cluster", 4, 2
	case 3:
		cfg.Executor, cfg.Parallelism, cfg.Procs, cfg.MachineCombiners = "cluster", 4, 2, true
	}
	sp := c06Template(cb.tmpl, "a", r)
	ref, err := spec.Eval(sp, nil)
	if err != nil {
		panic(err)
	}
	n := sp.Nodes[cb.node]
	site := sp.Site(cb.node)
	uf := &world.UFault{Site: site, Mode: cb.mode}
	if cb.oneShot {
		uf.Times = 1
	}
	chunk := cfg.Chunk
	if chunk == 0 {
		chunk = 128
	}
	switch n.Op {
	case "readerfunc":
		shard := 1
		rows := spec.SourceShard(&sp.Nodes[cb.node], shard)
		p := []int{0, 50, 178, len(rows) - 7, len(rows)}[cb.pos]
		// Positions are call boundaries of the scripted chunking (50,128,7,...).
		uf.Key = fmt.Sprintf("s%d@%d", shard, p)
		if cb.pos == 3 {
			uf.Key = "" // any call ...
			uf.Skip = 3 // ... after three
		}
	case "scanreader":
		uf.Key = "open"
		uf.Skip = cb.pos % 2
	case "writerfunc", "scan":
		uf.Key = ""
		uf.Skip = []int{0, 1, 2, 5}[cb.pos]
	case "reduce":
		uf.Key = ""
		uf.Skip = []int{0, 3, 40}[cb.pos]
		uf.Where = cb.where
	default:
		in := ref.Vals[n.In[0]]
		rows := in.Rows
		if len(rows) == 0 {
			return nil
		}
		idx := []int{0, chunk - 1, chunk, len(rows) - 1}[cb.pos]
		if idx >= len(rows) {
			idx = len(rows) / 2
		}
		if idx < 0 {
			idx = 0
		}
		uf.Key = spec.CanonRow(rows[idx])
	}
	c := &world.Case{Format: 1, Property: "C06", Seed: s, Config: cfg, UFaults: []*world.UFault{uf},
		Oracle: world.Oracle{Rows: true, Liveness: true}}
	marker := fmt.Sprintf("INJECTED-%s@%s", cb.mode, site)
	run1 := world.Step{Op: "run", ID: "r1", Func: "prog0", Spec: sp}
	recovers := cb.oneShot && cb.mode == "temp"
	carries := cb.mode == "panic" || (cb.mode == "error" && (n.Op == "readerfunc" || n.Op == "writerfunc" || n.Op == "scanreader"))
	switch {
	case recovers:
		// A failure that goes away on retry does not fail the run.
		run1.MustSucceed = true
	case cb.oneShot:
		// A one-shot plain error or panic may or may not fail the run (the
		// property speaks about persistent failures); if it does, the error
		// must carry the message where the property says so.
	default:
		run1.MustFail = true
	}
	if carries {
		run1.ErrContains = marker
	}
	c.Script = append(c.Script, run1)
	if recovers && sp.Nodes[sp.Root()].Op != "scan" {
		c.Script = append(c.Script, world.Step{Op: "scan", Of: "r1", MustSucceed: true})
	}
	// The session remains usable: the same program (other sites, so no
	// injected fault) must then run and give the reference rows.
	sp2 := c06Template(cb.tmpl, "b", r)
	c.Script = append(c.Script, world.Step{Op: "run", ID: "r2", Func: "prog0", Spec: sp2, MustSucceed: true})
	c.Script = append(c.Script, world.Step{Op: "scan", Of: "r2", MustSucceed: true})
	return c
}

// C06 — user errors and panics surface as errors from Run.
func C06(tier string, seed uint64) int {
	fmt.Printf("verif: C06 combinations=%d discard-cycle scenarios=%d\n", len(c06Combos), c06Cycles)
	b := &Batch{
		Property: "C06", Tier: tier, Seed: seed, Level: "fault_enumeration",
		Rule: fmt.Sprintf("enumeration of %d combinations (user-function site in 4 template programs x failure mode {error,temporary,panic,out-of-range partition} x {persistent, one-shot} x position {first row/call, around the vector boundary, last, at end-of-stream} x executor configuration {local p=1, local p=4, cluster, cluster+machine combiners}), each as its own child process (a crash of the process is observed as such), then re-sampled under other seeds and chunk sizes; oracle: Run returns an error (with the injected marker for errors and panics) unless the failure is temporary and one-shot, in which case it succeeds with reference rows; a following fault-free Run in the same session succeeds with reference rows; no hang; plus %d discard-cycle scenarios per pass (a source that fails temporarily on the first attempt of every re-execution, Result discarded and consumed again 5-7 times: every run must succeed)", len(c06Combos), c06Cycles),
		Gen: func(i int) *world.Case { return GenC06(seed, i) },
		N:   len(c06Combos) + c06Cycles,
	}
	if tier != "quick" {
		b.N = 3 * (len(c06Combos) + c06Cycles)
		b.Budget = 20 * time.Minute
	}
	return b.Run()
}
