package orch

import (
	"time"

	"verifsim/gen"
	"verifsim/simnet"
	"verifsim/spec"
	"verifsim/world"
)

// GenC20 generates failure-free runs whose user functions increment counters:
// a program, and sometimes a second Func over its Result (the second result's
// scope merges the tasks of both invocations).
func GenC20(seed uint64, i int) *world.Case {
	s := seedFor(seed, "C20", i)
	r := gen.New(s)
	cfg := gen.Config(r, "")
	cfg.SortCanary = 0
	sp := gen.Spec(r, gen.SpecOpts{MaxOps: 3 + r.Intn(5), Chunk: cfg.Chunk, Tag: "a", NoWeak: true, NoObserver: true, NoScanOp: true,
		ForceOps: []string{r.PickS("inc", "filter", "flatmap"), r.PickS("keyfold", "filter", "inc")}})
	c := &world.Case{Format: 1, Property: "C20", Seed: s, Config: cfg, Oracle: world.Oracle{Rows: true, Counters: true, Liveness: true}}
	c.Script = append(c.Script, world.Step{Op: "run", ID: "r1", Func: "prog0", Spec: sp, MustSucceed: true})
	ts, _ := sp.Types()
	if t := ts[sp.Root()]; r.Chance(0.5) && len(t.Cols) >= 2 && !t.IsCG() {
		sp2 := gen.Spec(r, gen.SpecOpts{MaxOps: 1 + r.Intn(3), Chunk: cfg.Chunk, Tag: "b", NoWeak: true, NoObserver: true, NoScanOp: true, ArgTypes: []spec.Type{t},
			ForceOps: []string{r.PickS("inc", "filter", "flatmap", "keyfold")}})
		if sp2.Nodes[0].Op == "arg" {
			if r.Chance(0.4) {
				// Failure-free recomputation: r1's tasks run a second time for r2.
				c.Script = append(c.Script, world.Step{Op: "discard", Of: "r1"})
				c.Script = append(c.Script, world.Step{Op: "run", ID: "r2", Func: "prog1", Spec: sp2, Args: []string{"r1"}, MustSucceed: true})
				c.Script = append(c.Script, world.Step{Op: "scan", Of: "r2", MustSucceed: true})
				return c
			}
			c.Script = append(c.Script, world.Step{Op: "run", ID: "r2", Func: "prog1", Spec: sp2, Args: []string{"r1"}, MustSucceed: true})
			c.Script = append(c.Script, world.Step{Op: "scan", Of: "r2", MustSucceed: true})
		}
	}
	c.Script = append(c.Script, world.Step{Op: "scan", Of: "r1", MustSucceed: true})
	if cfg.Executor == "cluster" && r.Chance(0.3) {
		// "Survive transport": the reply of a Worker.Run is lost in the network (no
		// machine is lost). Whether the driver asks the same worker again (which
		// answers from the task it already holds) or runs the task elsewhere, the
		// result's counters are those of one execution of each task.
		c.Faults = append(c.Faults, &simnet.Fault{At: simnet.Match{Point: "reply", Method: "Worker.Run", Occ: 1 + r.Intn(5)}, Do: "drop"})
	}
	return c
}

// C20 — user metrics are merged additively and survive transport unchanged.
func C20(tier string, seed uint64) int {
	wb := &Batch{
		Property: "C20", Tier: tier, Seed: seed, Level: "exploration",
		Gen:        func(i int) *world.Case { return GenC20(seed, i) },
		N:          600,
		NoEvidence: true,
	}
	if tier != "quick" {
		wb.N = 3000
		wb.Budget = 12 * time.Minute
	}
	exit := wb.Run()
	n, budget := compSizes(tier, 4000, 60, 300000, 600)
	cb := &CompBatch{Property: "C20", Engine: "scopesim", Tier: tier, Seed: seed, Level: "exploration", N: n, BudgetS: budget,
		ExtraCoverage: map[string]any{"whole_system": wb.Summary(), "whole_system_rule": "failure-free generated programs on both executors whose map/filter/flatmap functions increment one registered counter per node; oracle: Counter.Value(result.Scope()) == the reference's per-row call count, including results of a Func over an earlier Result (scopes of both invocations' tasks merged once each); in 3 of 10 cluster runs the reply of one Worker.Run is dropped in transit (no machine lost) and the totals must be unchanged"},
		Assume: []string{"Reset racing with Incr is not required to be linearizable (only Incr/Value/Merge are documented as safe for concurrent use); after Reset(s,u) the scopes may share instances, so u is not used again in a scenario", "counters are not placed upstream of Head, Scan or shared sub-slices (how often those functions run legitimately depends on buffering and compilation)"},
		CarryViolations: wb.violations}
	if exit2 := cb.Run(); exit2 > exit {
		exit = exit2
	}
	return exit
}
