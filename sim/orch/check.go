package orch

import (
	"path/filepath"
	"encoding/json"
	"fmt"
	"os"
	"sort"
	"strings"
	"sync"
	"time"

	"verifsim/world"
)

// Batch describes a seeded batch of whole-system runs for one property.
type Batch struct {
	Property string
	Tier     string
	Seed     uint64
	Level    string
	Rule     string
	// Gen produces case i (a pure function of Seed and i). nil = skip.
	Gen func(i int) *world.Case
	// N cases at least; Budget: keep generating until the wall budget is used.
	N      int
	Budget time.Duration
	// Judge may re-classify an outcome (e.g. accept errors). It returns the
	// violation class or "".
	Judge func(c *world.Case, o *world.Outcome) string
	// Group, if set, runs cross-run oracles over groups of outcomes that share a key.
	GroupKey   func(i int) string
	GroupCheck func(key string, cs []*world.Case, os []*world.Outcome) (class, detail string, culprit int)
	Workers    int
	Stats      *Stats
	MaxReports int
	// MinimiseBudget per violation.
	MinimiseBudget time.Duration
	ExtraEvidence  func() map[string]any
	// NoEvidence: do not write the evidence file (another batch of the same property does).
	NoEvidence bool
	violations int
	summary    map[string]any
}

// Summary returns a coverage summary of a finished batch.
func (b *Batch) Summary() map[string]any { return b.summary }

type found struct {
	c     *world.Case
	o     *world.Outcome
	class string
	group bool
}

// DefaultJudge classifies an outcome.
func DefaultJudge(c *world.Case, o *world.Outcome) string {
	return violationClass(o)
}

// Run executes the batch and returns the process exit code.
func (b *Batch) Run() int {
	if b.Workers == 0 {
		b.Workers = 16
	}
	if b.Stats == nil {
		b.Stats = NewStats(b.Property)
	}
	if b.Judge == nil {
		b.Judge = DefaultJudge
	}
	if b.MaxReports == 0 {
		b.MaxReports = 4
	}
	if b.MinimiseBudget == 0 {
		b.MinimiseBudget = 90 * time.Second
	}
	// VERIF_FASTFAIL (sensitivity testing only, see bin/mutate.sh): stop at the
	// first violation that is not a known finding, report one, spend little on
	// minimisation, write no evidence.
	fastfail := os.Getenv("VERIF_FASTFAIL") != ""
	var ffFindings []*Finding
	if fastfail {
		b.MaxReports, b.MinimiseBudget, b.NoEvidence = 1, 20*time.Second, true
		ffFindings = LoadFindings()
	}
	fmt.Printf("verif: property=%s tier=%s VERIF_SEED=%d\n", b.Property, b.Tier, b.Seed)
	start := time.Now()
	var mu sync.Mutex
	var founds []found
	infra := 0
	groups := map[string][]int{}
	cases := map[int]*world.Case{}
	outs := map[int]*world.Outcome{}
	next := 0
	if v := os.Getenv("VERIF_RANGE"); v != "" {
		// Debugging aid: run only the cases with index in [a, b).
		var a, bb int
		if n, _ := fmt.Sscanf(v, "%d:%d", &a, &bb); n == 2 {
			next, b.N, b.Budget, b.NoEvidence = a, bb, 0, true
		}
	}
	for {
		chunk := b.N - next
		if chunk <= 0 {
			if b.Budget == 0 || time.Since(start) > b.Budget {
				break
			}
			chunk = 256
		}
		if chunk > 2048 {
			chunk = 2048
		}
		if fastfail && chunk > 96 {
			chunk = 96
		}
		base := next
		Pool(b.Workers, chunk, func(k int) {
			i := base + k
			c := b.Gen(i)
			if c == nil {
				return
			}
			if d := os.Getenv("VERIF_DUMP_CASES"); d != "" {
				// Debugging aid: keep every generated case.
				if data, err := json.Marshal(c); err == nil {
					os.WriteFile(filepath.Join(d, fmt.Sprintf("%s-%06d.json", b.Property, i)), data, 0o644)
				}
			}
			o := RunCase(c, RunOpts{})
			if o.Verdict == "infra" && o.Class != "process-crash" {
				// One retry for infrastructure trouble.
				o = RunCase(c, RunOpts{})
			}
			if o.Verdict == "stall" {
				o = b.stallProtocol(c, o)
			}
			class := b.Judge(c, o)
			b.Stats.Add(c, o)
			mu.Lock()
			defer mu.Unlock()
			if o.Verdict == "infra" && class == "" {
				infra++
			}
			if class != "" && len(founds) < 64 {
				if !fastfail || MatchFinding(ffFindings, b.Property, c, class) == nil {
					founds = append(founds, found{c, o, class, false})
				}
			}
			if b.GroupKey != nil {
				key := b.GroupKey(i)
				groups[key] = append(groups[key], i)
				cases[i] = c
				outs[i] = o
			}
		})
		next += chunk
		mu.Lock()
		nf := len(founds)
		mu.Unlock()
		if nf >= 16 || (fastfail && nf >= 1) {
			break
		}
	}
	// Cross-run oracles.
	if b.GroupCheck != nil {
		keys := make([]string, 0, len(groups))
		for k := range groups {
			keys = append(keys, k)
		}
		sort.Strings(keys)
		for _, k := range keys {
			idx := groups[k]
			sort.Ints(idx)
			var cs []*world.Case
			var os_ []*world.Outcome
			for _, i := range idx {
				cs = append(cs, cases[i])
				os_ = append(os_, outs[i])
			}
			if class, detail, culprit := b.GroupCheck(k, cs, os_); class != "" {
				o := *os_[culprit]
				o.Verdict, o.Class, o.Detail = "violation", class, detail
				founds = append(founds, found{cs[culprit], &o, class, true})
			}
		}
	}
	// Reports.
	findings := LoadFindings()
	exit := 0
	reported := map[string]bool{}
	nViol := 0
	unstable := 0
	sort.SliceStable(founds, func(i, j int) bool { return founds[i].class < founds[j].class })
	for _, f := range founds {
		key := f.class + "|" + featureKey(f.c)
		if reported[key] || len(reported) >= b.MaxReports {
			continue
		}
		c, o := f.c, f.o
		if !f.group && f.class == "deadlock" {
			// Already confirmed by the stall protocol (which re-ran the case);
			// every further run costs a watchdog period, so it is reported as found.
		} else if !f.group {
			// Single-run violation: confirm in a fresh process, then minimise.
			o2 := RunCase(c, RunOpts{})
			if b.Judge(c, o2) != f.class {
				unstable++
				fmt.Printf("verif: unstable case (class %s not reproduced on re-run), not reported\n", f.class)
				continue
			}
			if c.Meta == nil {
				c, o = b.minimise(c, f.class)
			} else {
				// Orchestrator-side oracles depend on generator metadata that
				// would no longer describe a reduced case: report as found.
				o = o2
			}
			if o.Verdict != "violation" {
				oc := *o
				oc.Verdict, oc.Class = "violation", f.class
				o = &oc
			}
		}
		key = f.class + "|" + featureKey(c)
		if reported[key] {
			continue
		}
		reported[key] = true
		if kf := MatchFinding(findings, b.Property, c, f.class); kf != nil {
			if !kf.Seen {
				kf.Seen = true
				fmt.Printf("KNOWN-FINDING: property=%s class=%s %s\n", b.Property, f.class, kf.Text)
			}
			continue
		}
		path := WriteReplay(b.Property, c, o)
		fmt.Printf("VIOLATION property=%s replay=%s\n", b.Property, path)
		fmt.Printf("  class=%s detail=%s\n", f.class, strings.ReplaceAll(o.Detail, "\n", " "))
		nViol++
		exit = 1
	}
	extra := map[string]any{"unstable_cases": unstable, "infra_runs": infra}
	if b.ExtraEvidence != nil {
		for k, v := range b.ExtraEvidence() {
			extra[k] = v
		}
	}
	var kf []string
	for _, f := range findings {
		if f.Seen {
			kf = append(kf, f.Class+": "+f.Text)
		}
	}
	if len(kf) > 0 {
		extra["known_findings_reproduced"] = kf
	}
	b.violations = nViol
	b.summary = map[string]any{"runs": b.Stats.Evals, "distinct_runs": len(b.Stats.Distinct), "verdicts": b.Stats.Verdicts, "faults_fired": b.Stats.Fired,
		"probes": b.Stats.Probes, "simulated_seconds": float64(b.Stats.SimNs) / 1e9, "violations": nViol, "infra_runs": infra}
	if !b.NoEvidence {
		if err := b.Stats.WriteEvidence(b.Tier, b.Seed, b.Level, b.Rule, nViol, extra); err != nil {
			fmt.Fprintf(os.Stderr, "verif: writing evidence: %v\n", err)
			return 2
		}
	}
	fmt.Printf("verif: property=%s runs=%d distinct=%d violations=%d infra=%d wall=%.0fs verdicts=%v\n",
		b.Property, b.Stats.Evals, len(b.Stats.Distinct), nViol, infra, time.Since(start).Seconds(), b.Stats.Verdicts)
	if exit == 0 && (infra >= 3 && infra*50 > b.Stats.Evals) {
		fmt.Printf("verif: too many infrastructure failures (%d of %d): %v\n", infra, b.Stats.Evals, b.Stats.Infra)
		return 2
	}
	if exit == 0 && unstable > 0 && nViol == 0 && len(founds) == unstable {
		return 2
	}
	return exit
}

func (b *Batch) minimise(c *world.Case, class string) (*world.Case, *world.Outcome) {
	deadline := time.Now().Add(b.MinimiseBudget)
	cur := cloneCase(c)
	var curOut *world.Outcome
	improved := true
	for improved && time.Now().Before(deadline) {
		improved = false
		for _, cand := range reductions(cur) {
			if time.Now().After(deadline) {
				break
			}
			o := RunCase(cand, RunOpts{})
			if b.Judge(cand, o) == class {
				cur, curOut = cand, o
				improved = true
				break
			}
		}
	}
	// The minimised case is replayed in a fresh process before it is reported.
	o := RunCase(cur, RunOpts{})
	if b.Judge(cur, o) == class {
		return cur, o
	}
	if curOut != nil {
		// Fall back to the original (reproduced) case.
		return c, RunCase(c, RunOpts{})
	}
	return cur, o
}

// lockHolders are functions of bigslice known to call user code (which may
// sleep on the simulated clock) while holding a mutex. A goroutine sleeping
// below one of them can stall the simulated clock without any defect in
// bigslice: under synctest, goroutines blocked on a sync.Mutex are not durably
// blocked, so the clock does not advance and the sleeper never wakes.
var lockHolders = []string{"exec.(*worker).CommitCombiner"}

// stallAnalysis inspects the goroutine dump taken at a real-time stall. It
// returns the innermost bigslice frame of a goroutine blocked on a mutex
// ("" if there is none) and whether some sleeping goroutine may hold a lock.
func stallAnalysis(dump string) (blockedAt string, sleeperMayHoldLock bool) {
	for _, g := range strings.Split(dump, "\n\n") {
		head := g
		if i := strings.Index(g, "\n"); i >= 0 {
			head = g[:i]
		}
		if !strings.HasPrefix(head, "goroutine ") {
			continue
		}
		switch {
		case strings.Contains(head, "[sync.Mutex.Lock") || strings.Contains(head, "[sync.RWMutex."):
			if blockedAt == "" {
				for _, l := range strings.Split(g, "\n") {
					if strings.HasPrefix(l, "github.com/grailbio/bigslice") {
						if i := strings.Index(l, "("); i > 0 {
							l = l[:strings.LastIndex(l, "(")]
						}
						blockedAt = l
						break
					}
				}
			}
		case strings.Contains(head, "[sleep"):
			for _, f := range lockHolders {
				if strings.Contains(g, f) {
					sleeperMayHoldLock = true
				}
			}
		}
	}
	return
}

// stallProtocol implements DESIGN §2.6. A real-time stall means that some
// goroutine in the bubble is blocked in a way the simulated clock cannot wait
// for (a sync.Mutex). Two ways to call it a deadlock of the system itself:
// (1) the identical case stalls again, a goroutine is blocked on a mutex inside
// bigslice, and no sleeping goroutine can be the holder (the lock was leaked or
// its holder is blocked for good); (2) the case also stalls with every virtual
// delay disabled. Anything else is an artefact of the simulation (infra).
func (b *Batch) stallProtocol(c *world.Case, o *world.Outcome) *world.Outcome {
	return classifyStall(c, o)
}

func classifyStall(c *world.Case, o *world.Outcome) *world.Outcome {
	if at, holder := stallAnalysis(o.Stack); at != "" && !holder {
		o1 := RunCase(cloneCase(c), RunOpts{})
		if o1.Verdict == "stall" {
			if at1, holder1 := stallAnalysis(o1.Stack); at1 != "" && !holder1 {
				o1.Verdict = "violation"
				o1.Class = "deadlock"
				o1.Detail = "real-time stall, twice at the same place: a goroutine is blocked for good on a mutex in " + at1 + " and no goroutine sleeping on the simulated clock can be its holder"
				return o1
			}
		}
	}
	c2 := cloneCase(c)
	c2.Config.DelayProfile = "none"
	c2.Config.UserDelays = false
	o2 := RunCase(c2, RunOpts{})
	if o2.Verdict == "stall" {
		o2.Verdict = "violation"
		o2.Class = "deadlock"
		o2.Detail = "real-time stall also with all virtual delays disabled: the system blocked on its own"
		return o2
	}
	o.Verdict = "infra"
	o.Class = "clock-stall"
	return o
}

func featureKey(c *world.Case) string {
	f := Features(c)
	var ks []string
	for k := range f {
		if strings.HasPrefix(k, "op:") || strings.HasPrefix(k, "ufault") || strings.HasPrefix(k, "fault") || strings.HasPrefix(k, "arg") {
			ks = append(ks, k)
		}
	}
	sort.Strings(ks)
	return strings.Join(ks, ",")
}
