package orch

import (
	"fmt"
	"os"
	"strings"
	"time"

	"verifsim/gen"
	"verifsim/simnet"
	"verifsim/spec"
	"verifsim/world"
)

// faultSuiteSpec generates one program of the C02 fault suite.
func faultSuiteSpec(r gen.Rand, kind int, tag string, chunk int) (*spec.Spec, string) {
	o := gen.SpecOpts{Chunk: chunk, Tag: tag, NoObserver: true, NoPragmas: true, NoWeak: true, KeyTypes: []string{"int", "string", "int64"}}
	switch kind % 6 {
	case 0: // map-only
		o.MaxOps = 3
		o.ForceOps = []string{"inc", "filter", "flatmap"}
		s := gen.Spec(r, o)
		return s, "map-only"
	case 1:
		o.MaxOps = 3
		o.ForceOps = []string{"keyfold", "reduce"}
		return gen.Spec(r, o), "reduce"
	case 2:
		o.MaxOps = 3
		o.ForceOps = []string{"cogroup", "cgflat"}
		return gen.Spec(r, o), "cogroup"
	case 3:
		o.MaxOps = 3
		o.ForceOps = []string{"keyfold", "fold"}
		return gen.Spec(r, o), "fold"
	case 4:
		o.MaxOps = 6
		o.ForceOps = []string{"reduce", "rekey", "reshuffle", "reduce"}
		return gen.Spec(r, o), "multi-stage"
	default:
		o.MaxOps = 5
		return gen.Spec(r, o), "random"
	}
}

// clusterConfig generates a cluster configuration for fault runs.
func clusterConfig(r gen.Rand) world.Config {
	c := gen.Config(r, "cluster")
	c.MachineCombiners = false
	c.Procs = r.Pick(1, 2, 2, 4)
	c.Parallelism = r.Pick(2, 4, 4, 6, 8)
	c.MaxLoad = 0
	c.UserDelays = r.Chance(0.3)
	c.Chunk = r.Pick(0, 0, 16, 64)
	c.SortCanary = 0
	if r.Chance(0.4) {
		c.Keepalive = []string{"5s", "15s", "2s"}
	}
	return c
}

// recon runs the fault-free version of c and returns its seam events.
func recon(c *world.Case) ([]simnet.Event, *world.Outcome) {
	base := cloneCase(c)
	base.Faults = nil
	base.UFaults = nil
	base.WantEvents = true
	o := RunCase(base, RunOpts{})
	return o.SeamEvents, o
}

func faultable(e simnet.Event) bool {
	switch e.Method {
	case "Worker.Compile", "Worker.Run", "Worker.Stat", "Worker.Read", "Worker.CommitCombiner", "Worker.FuncLocations", "Worker.Discard":
		return e.Point == "send" || e.Point == "reply"
	}
	return false
}

// clusteredReduce is a Reduce whose producers hold disjoint, ascending key ranges
// (sorted distinct keys dealt to the shards in contiguous blocks): in the reduce-side
// merge the other producers' streams are exhausted while the last producer's stream
// is still mostly unread, so a loss in the middle of that shuffle read hits the merge
// with one stream left.
func clusteredReduce(r gen.Rand, tag string) *spec.Spec {
	n := r.Pick(200, 400, 700, 1200)
	src := spec.Node{Op: "const", KT: "int", N: n, Card: n, Shards: r.Pick(2, 2, 3, 4), DSeed: 5 + 12*r.Intn(50)}
	if r.Chance(0.4) {
		src.Op = "readerfunc"
		src.Chunks = []int{r.Pick(1, 7, 64, 1000)}
		src.EOFData = r.Chance(0.5)
	}
	nodes := []spec.Node{src}
	if r.Chance(0.5) {
		nodes = append(nodes, spec.Node{Op: "map", Fn: "inc", M: r.Pick(1, 2), In: []int{0}})
	}
	nodes = append(nodes, spec.Node{Op: "reduce", Fn: r.PickS("sum", "min", "xor"), In: []int{len(nodes) - 1}})
	if r.Chance(0.5) {
		nodes = append(nodes, spec.Node{Op: "map", Fn: "inc", M: 1, In: []int{len(nodes) - 1}})
	}
	sp := &spec.Spec{Nodes: nodes, Tag: tag}
	if _, err := sp.Types(); err != nil {
		panic(fmt.Sprintf("clusteredReduce: %v", err))
	}
	return sp
}

// midStreamLosses returns, for every streamed Worker.Read body of the fault-free
// run that is long enough, faults that deliver part of the body and then kill the
// machine serving it.
func midStreamLosses(evs []simnet.Event, maxBounds int) []*simnet.Fault {
	var out []*simnet.Fault
	seen := map[string]bool{}
	for _, e := range evs {
		if e.Point != "chunk" || e.Method != "Worker.Read" || e.Len < 48 {
			continue
		}
		key := e.Key
		off := int64(0)
		if i := strings.LastIndex(key, "+"); i >= 0 {
			fmt.Sscan(key[i+1:], &off)
			key = key[:i]
		}
		if seen[e.Callee+"|"+key] {
			continue
		}
		seen[e.Callee+"|"+key] = true
		at := simnet.Match{Point: "chunk", Method: "Worker.Read", Callee: e.Callee, Key: key, Occ: 1}
		for _, num := range []int64{1, 2, 3} {
			out = append(out, &simnet.Fault{At: at, Do: "cutkill", Arg: off + int64(e.Len)*num/4})
		}
		// ... and exactly at message boundaries of the row stream (every batch
		// boundary is one): what was delivered so far is complete and valid.
		bs := e.Bounds
		if len(bs) > 0 && bs[0] == 0 {
			bs = bs[1:]
		}
		step := 1
		if maxBounds > 0 && len(bs) > maxBounds {
			step = (len(bs) + maxBounds - 1) / maxBounds
		}
		for k := len(bs) - 1; k >= 0; k -= step {
			out = append(out, &simnet.Fault{At: at, Do: "cutkill", Arg: bs[k]})
		}
	}
	return out
}

// c02Script builds the client script: run (optionally a second Func over the
// first result) and scan.
func c02Script(r gen.Rand, kind int, chunk int) []world.Step {
	sp, _ := faultSuiteSpec(r, kind, "a", chunk)
	if kind%8 == 7 {
		sp = clusteredReduce(r, "a")
	}
	steps := []world.Step{{Op: "run", ID: "r1", Func: "prog0", Spec: sp}}
	last := "r1"
	if kind%7 == 6 || r.Chance(0.25) {
		// Reused result through a pipelined or a shuffling operator.
		ts, _ := sp.Types()
		t := ts[sp.Root()]
		if t.IsKV() {
			o := gen.SpecOpts{Chunk: chunk, Tag: "b", NoObserver: true, NoPragmas: true, NoWeak: true, ArgTypes: []spec.Type{t}, MaxOps: 3}
			if r.Chance(0.5) {
				o.ForceOps = []string{"inc"}
			} else {
				o.ForceOps = []string{"inc", "reduce"}
			}
			sp2 := gen.Spec(r, o)
			if sp2.Nodes[0].Op == "arg" {
				steps = append(steps, world.Step{Op: "run", ID: "r2", Func: "prog1", Spec: sp2, Args: []string{"r1"}})
				last = "r2"
			}
		}
	}
	steps = append(steps, world.Step{Op: "scan", Of: last})
	return steps
}

// GenC02 generates case i of C02.
func GenC02(seed uint64, i int) *world.Case {
	s := seedFor(seed, "C02", i)
	r := gen.New(s)
	cfg := clusterConfig(r)
	if i%8 == 7 {
		cfg.Chunk = r.Pick(8, 16, 16, 32) // several buffer refills per stream
	}
	c := &world.Case{Format: 1, Property: "C02", Seed: s, Config: cfg,
		Script: c02Script(r, i, cfg.Chunk),
		Oracle: world.Oracle{Rows: true, Liveness: true}}
	evs, ro := recon(c)
	if ro.Verdict != "ok" {
		// The fault-free run itself misbehaves: report as is (C01 territory,
		// but never hide it).
		return c
	}
	var cands []simnet.Event
	for _, e := range evs {
		if faultable(e) {
			cands = append(cands, e)
		}
	}
	if len(cands) == 0 {
		return c
	}
	machines := map[string]bool{}
	for _, e := range evs {
		if e.Callee != "" {
			machines[e.Callee] = true
		}
	}
	var mlist []string
	for m := range machines {
		mlist = append(mlist, m)
	}
	sortStrings(mlist)
	nk := r.Pick(1, 1, 1, 1, 2, 2, 3, 4)
	kills := 0
	if ms := midStreamLosses(evs, 12); len(ms) > 0 && (i%8 == 7 || r.Chance(0.1)) {
		// A machine lost in the middle of a shuffle (or scan) read.
		c.Faults = append(c.Faults, ms[r.Intn(len(ms))])
		kills++
		nk = r.Pick(0, 0, 1)
	}
	for k := 0; k < nk; k++ {
		e := cands[r.Intn(len(cands))]
		f := &simnet.Fault{At: simnet.Match{Point: e.Point, Method: e.Method, Callee: e.Callee, Key: e.Key, Occ: e.Occ}}
		switch x := r.Intn(20); {
		case x < 11:
			f.Do = "kill"
			kills++
		case x < 14:
			f.Do = "kill"
			f.Target = mlist[r.Intn(len(mlist))]
			kills++
		case x < 16:
			f.Do = "drop"
		case x < 17:
			f.Do = "stall"
			kills++ // a stalled machine may be declared lost
			f.Arg = int64(time.Duration(r.Pick(3, 30, 200)) * time.Second)
		case x < 19 && e.Method == "Worker.Read":
			f.At.Point = "chunk"
			f.At.Occ = 1
			f.Do = "cut"
			f.Arg = int64(r.Pick(0, 1, 5, 17, 100, 1000))
		default:
			f.Do = "kill"
			kills++
		}
		c.Faults = append(c.Faults, f)
	}
	// Sometimes: the machine dies right after a task's run returned, and the
	// driver goroutine is held until the loss has been noticed (the window
	// between a task's completion and the driver recording it).
	if r.Chance(0.2) {
		ka := 3 * time.Minute
		if len(c.Config.Keepalive) > 1 {
			ka = 40 * time.Second
		}
		c.Faults = append(c.Faults, &simnet.Fault{At: simnet.Match{Point: "yield", Method: "bm.returned", Occ: 1 + r.Intn(6)}, Do: "kill", Arg: int64(ka)})
		kills++
	}
	// Replacement policy.
	if r.Chance(0.25) && kills < len(mlist) {
		c.Config.MaxMachines = len(mlist)
	}
	// With losses that stop and capacity to recover, everything must succeed.
	if kills <= 2 {
		for k := range c.Script {
			c.Script[k].MustSucceed = true
		}
	}
	return c
}

// sweepC02 enumerates single-kill cases over every faultable seam event of a base case.
func sweepC02(seed uint64, which int) []*world.Case {
	s := seedFor(seed, "C02-sweep", which)
	r := gen.New(s)
	cfg := clusterConfig(r)
	cfg.Parallelism = 4
	cfg.Procs = 2
	if which%8 == 7 {
		cfg.Chunk = 16
	}
	base := &world.Case{Format: 1, Property: "C02", Seed: s, Config: cfg,
		Script: c02Script(r, which, cfg.Chunk),
		Oracle: world.Oracle{Rows: true, Liveness: true}}
	for k := range base.Script {
		base.Script[k].MustSucceed = true
	}
	evs, ro := recon(base)
	if ro.Verdict != "ok" {
		return []*world.Case{base}
	}
	machines := map[string]bool{}
	for _, e := range evs {
		if e.Callee != "" {
			machines[e.Callee] = true
		}
	}
	var out []*world.Case
	for _, e := range evs {
		if !faultable(e) {
			continue
		}
		at := simnet.Match{Point: e.Point, Method: e.Method, Callee: e.Callee, Key: e.Key, Occ: e.Occ}
		// Kill the callee.
		c := cloneCase(base)
		c.Faults = []*simnet.Fault{{At: at, Do: "kill"}}
		out = append(out, c)
		// Kill each other machine at this instant (bystander / dependency holder).
		for m := range machines {
			if m == e.Callee {
				continue
			}
			c := cloneCase(base)
			c.Faults = []*simnet.Fault{{At: at, Do: "kill", Target: m}}
			out = append(out, c)
		}
		if e.Point == "reply" && e.Method == "Worker.Run" {
			c := cloneCase(base)
			c.Faults = []*simnet.Fault{{At: at, Do: "drop"}}
			out = append(out, c)
		}
	}
	// The serving machine dies at 1/4, 1/2, 3/4 of every streamed read body.
	for _, f := range midStreamLosses(evs, 24) {
		c := cloneCase(base)
		c.Faults = []*simnet.Fault{f}
		out = append(out, c)
	}
	return out
}

// scanResumeSweep: two fixed programs whose result is scanned while the machine
// serving the scan dies at every gob message boundary (and the quarter points) of
// every streamed body. Program 0 ends in a Fold, whose recomputed output has the
// rows in another order; program 1 is map-only, whose recomputed output is
// byte-identical, so its scan has to resume and succeed.
func scanResumeSweep(seed uint64, which int) []*world.Case {
	s := seedFor(seed, "C02-scan-resume", which)
	r := gen.New(s)
	cfg := clusterConfig(r)
	cfg.Procs, cfg.Parallelism, cfg.Chunk = 1, 2, 8
	cfg.Keepalive = []string{"5s", "15s", "2s"}
	var sp *spec.Spec
	if which == 0 {
		sp = &spec.Spec{Tag: "a", Nodes: []spec.Node{
			{Op: "readerfunc", KT: "int", N: 100, Card: 200, Shards: 3, DSeed: 377},
			{Op: "fold", Fn: "cnt", In: []int{0}}}}
	} else {
		sp = &spec.Spec{Tag: "a", Nodes: []spec.Node{
			{Op: "const", KT: "int", N: 100, Card: 200, Shards: 3, DSeed: 377},
			{Op: "map", Fn: "inc", M: 1, In: []int{0}}}}
	}
	if _, err := sp.Types(); err != nil {
		panic(fmt.Sprintf("scanResumeSweep: %v", err))
	}
	base := &world.Case{Format: 1, Property: "C02", Seed: s, Config: cfg,
		Script: []world.Step{{Op: "run", ID: "r1", Func: "prog0", Spec: sp, MustSucceed: true}, {Op: "scan", Of: "r1", MustSucceed: true}},
		Oracle: world.Oracle{Rows: true, Liveness: true}}
	evs, ro := recon(base)
	if ro.Verdict != "ok" {
		return []*world.Case{base}
	}
	var out []*world.Case
	for _, f := range midStreamLosses(evs, 0) {
		c := cloneCase(base)
		c.Faults = []*simnet.Fault{f}
		out = append(out, c)
	}
	return out
}

// combiningReaderSweep: programs in which a task that COMBINES (the map side of a
// Reduce) reads its input over the network — from the Result of an earlier
// invocation (which 0) or from another shuffle (which 1) — swept with the loss
// of the serving machine in the middle of every streamed body: the failed attempt
// has already combined part of its input when the read breaks.
func combiningReaderSweep(seed uint64, which int) []*world.Case {
	s := seedFor(seed, "C02-combining-reader", which)
	r := gen.New(s)
	cfg := clusterConfig(r)
	cfg.Procs, cfg.Parallelism, cfg.Chunk = 2, 4, 8
	src := spec.Node{Op: "const", KT: "int", N: 300, Card: 40, Shards: 3, DSeed: 4 + 12*r.Intn(20)}
	var script []world.Step
	if which == 0 {
		base := &spec.Spec{Tag: "a", Nodes: []spec.Node{src, {Op: "map", Fn: "inc", M: 1, In: []int{0}}}}
		ts, err := base.Types()
		if err != nil {
			panic(err)
		}
		t := ts[base.Root()]
		cons := &spec.Spec{Tag: "b", Nodes: []spec.Node{{Op: "arg", T: &t}, {Op: "reduce", Fn: "sum", In: []int{0}}}}
		script = []world.Step{
			{Op: "run", ID: "r1", Func: "prog0", Spec: base, MustSucceed: true},
			{Op: "run", ID: "r2", Func: "prog1", Spec: cons, Args: []string{"r1"}, MustSucceed: true},
			{Op: "scan", Of: "r2", MustSucceed: true}}
	} else {
		sp := &spec.Spec{Tag: "a", Nodes: []spec.Node{src,
			{Op: "reshuffle", In: []int{0}},
			{Op: "map", Fn: "rekey", KT: "int", M: 16, In: []int{1}},
			{Op: "reduce", Fn: "sum", In: []int{2}}}}
		if _, err := sp.Types(); err != nil {
			panic(err)
		}
		script = []world.Step{
			{Op: "run", ID: "r1", Func: "prog0", Spec: sp, MustSucceed: true},
			{Op: "scan", Of: "r1", MustSucceed: true}}
	}
	base := &world.Case{Format: 1, Property: "C02", Seed: s, Config: cfg, Script: script,
		Oracle: world.Oracle{Rows: true, Liveness: true}}
	evs, ro := recon(base)
	if ro.Verdict != "ok" {
		return []*world.Case{base}
	}
	var out []*world.Case
	for _, f := range midStreamLosses(evs, 5) {
		c := cloneCase(base)
		c.Faults = []*simnet.Fault{f}
		out = append(out, c)
	}
	return out
}

// C02 — machine loss gives correct rows or an error, never wrong rows or a hang.
func C02(tier string, seed uint64) int {
	nsweep := 2
	n := 600
	var budget time.Duration
	if tier != "quick" {
		nsweep = 12
		n = 3000
		budget = 25 * time.Minute
	}
	var sweep []*world.Case
	if ks := os.Getenv("VERIF_C02_SWEEP_KINDS"); ks != "" {
		// Debugging aid: sweep only the given program kinds, no random part.
		nsweep, n = 0, 0
		for _, f := range strings.Split(ks, ",") {
			var k int
			fmt.Sscan(f, &k)
			sweep = append(sweep, sweepC02(seed, k)...)
			nsweep++
		}
	}
	for k := 0; k < nsweep && os.Getenv("VERIF_C02_SWEEP_KINDS") == ""; k++ {
		sweep = append(sweep, sweepC02(seed, k)...)
	}
	if nsweep < 8 && os.Getenv("VERIF_C02_SWEEP_KINDS") == "" {
		// The quick tier always includes the range-clustered reduce (program kind 7).
		sweep = append(sweep, sweepC02(seed, 7)...)
		nsweep++
	}
	if os.Getenv("VERIF_C02_SWEEP_KINDS") == "" {
		for k := 0; k < 2; k++ {
			sweep = append(sweep, scanResumeSweep(seed, k)...)
			sweep = append(sweep, combiningReaderSweep(seed, k)...)
		}
		nsweep += 4
	}
	fmt.Printf("verif: C02 single-fault sweep: %d cases over %d base programs\n", len(sweep), nsweep)
	b := &Batch{
		Property: "C02", Tier: tier, Seed: seed, Level: "fault_enumeration",
		Rule: "fault-suite programs (map-only, reduce, cogroup, fold, multi-stage, reused results) on the simulated cluster; (a) sweep: for each base program, one run per (RPC seam event of the fault-free run x {kill callee, kill each other machine, drop Worker.Run reply}) and per (streamed Worker.Read body x {serving machine dies after 1/4, 1/2, 3/4 of the body and at gob message boundaries}); two fixed scan-resume programs (Fold output, map-only output) swept at every message boundary of every streamed body; two programs whose combining tasks read over the network (reused Result -> Reduce; reshuffle -> rekey -> Reduce) swept with mid-stream losses; (b) seeded plans of 1-4 faults (kill callee/bystander, drop, stall, cut-stream) placed on seam events of a reconnaissance run, with or without replacement machines; oracle: success with rows == reference, or error; no hang within 4h simulated; success required when at most 2 kills and capacity remains; distinct = distinct (ordered seam-event sequence, per-step result digest)",
		Gen: func(i int) *world.Case {
			if i < len(sweep) {
				return sweep[i]
			}
			return GenC02(seed, i-len(sweep))
		},
		N:      len(sweep) + n,
		Budget: budget,
		ExtraEvidence: func() map[string]any {
			return map[string]any{"sweep_cases": len(sweep), "sweep_base_programs": nsweep}
		},
	}
	return b.Run()
}
