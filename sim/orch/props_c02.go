package orch

import (
	"fmt"
	"time"

	"verifsim/gen"
	"verifsim/simnet"
	"verifsim/spec"
	"verifsim/world"
)

// faultSuiteSpec generates one program of the C02 fault suite.
func faultSuiteSpec(r gen.Rand, kind int, tag string, chunk int) (*spec.Spec, string) {
	o := gen.SpecOpts{Chunk: chunk, Tag: tag, NoObserver: true, NoPragmas: true, NoWeak: true, KeyTypes: []string{"int", "string", "int64"}}
	switch kind % 6 {
	case 0: // map-only
		o.MaxOps = 3
		o.ForceOps = []string{"inc", "filter", "flatmap"}
		s := gen.Spec(r, o)
		return s, "map-only"
	case 1:
		o.MaxOps = 3
		o.ForceOps = []string{"keyfold", "reduce"}
		return gen.Spec(r, o), "reduce"
	case 2:
		o.MaxOps = 3
		o.ForceOps = []string{"cogroup", "cgflat"}
		return gen.Spec(r, o), "cogroup"
	case 3:
		o.MaxOps = 3
		o.ForceOps = []string{"keyfold", "fold"}
		return gen.Spec(r, o), "fold"
	case 4:
		o.MaxOps = 6
		o.ForceOps = []string{"reduce", "rekey", "reshuffle", "reduce"}
		return gen.Spec(r, o), "multi-stage"
	default:
		o.MaxOps = 5
		return gen.Spec(r, o), "random"
	}
}

// clusterConfig generates a cluster configuration for fault runs.
func clusterConfig(r gen.Rand) world.Config {
	c := gen.Config(r, "cluster")
	c.MachineCombiners = false
	c.Procs = r.Pick(1, 2, 2, 4)
	c.Parallelism = r.Pick(2, 4, 4, 6, 8)
	c.MaxLoad = 0
	c.UserDelays = r.Chance(0.3)
	c.Chunk = r.Pick(0, 0, 16, 64)
	c.SortCanary = 0
	if r.Chance(0.4) {
		c.Keepalive = []string{"5s", "15s", "2s"}
	}
	return c
}

// recon runs the fault-free version of c and returns its seam events.
func recon(c *world.Case) ([]simnet.Event, *world.Outcome) {
	base := cloneCase(c)
	base.Faults = nil
	base.UFaults = nil
	base.WantEvents = true
	o := RunCase(base, RunOpts{})
	return o.SeamEvents, o
}

func faultable(e simnet.Event) bool {
	switch e.Method {
	case "Worker.Compile", "Worker.Run", "Worker.Stat", "Worker.Read", "Worker.CommitCombiner", "Worker.FuncLocations", "Worker.Discard":
		return e.Point == "send" || e.Point == "reply"
	}
	return false
}

// c02Script builds the client script: run (optionally a second Func over the
// first result) and scan.
func c02Script(r gen.Rand, kind int, chunk int) []world.Step {
	sp, _ := faultSuiteSpec(r, kind, "a", chunk)
	steps := []world.Step{{Op: "run", ID: "r1", Func: "prog0", Spec: sp}}
	last := "r1"
	if kind%7 == 6 || r.Chance(0.25) {
		// Reused result through a pipelined or a shuffling operator.
		ts, _ := sp.Types()
		t := ts[sp.Root()]
		if t.IsKV() {
			o := gen.SpecOpts{Chunk: chunk, Tag: "b", NoObserver: true, NoPragmas: true, NoWeak: true, ArgTypes: []spec.Type{t}, MaxOps: 3}
			if r.Chance(0.5) {
				o.ForceOps = []string{"inc"}
			} else {
				o.ForceOps = []string{"inc", "reduce"}
			}
			sp2 := gen.Spec(r, o)
			if sp2.Nodes[0].Op == "arg" {
				steps = append(steps, world.Step{Op: "run", ID: "r2", Func: "prog1", Spec: sp2, Args: []string{"r1"}})
				last = "r2"
			}
		}
	}
	steps = append(steps, world.Step{Op: "scan", Of: last})
	return steps
}

// GenC02 generates case i of C02.
func GenC02(seed uint64, i int) *world.Case {
	s := seedFor(seed, "C02", i)
	r := gen.New(s)
	cfg := clusterConfig(r)
	c := &world.Case{Format: 1, Property: "C02", Seed: s, Config: cfg,
		Script: c02Script(r, i, cfg.Chunk),
		Oracle: world.Oracle{Rows: true, Liveness: true}}
	evs, ro := recon(c)
	if ro.Verdict != "ok" {
		// The fault-free run itself misbehaves: report as is (C01 territory,
		// but never hide it).
		return c
	}
	var cands []simnet.Event
	for _, e := range evs {
		if faultable(e) {
			cands = append(cands, e)
		}
	}
	if len(cands) == 0 {
		return c
	}
	machines := map[string]bool{}
	for _, e := range evs {
		if e.Callee != "" {
			machines[e.Callee] = true
		}
	}
	var mlist []string
	for m := range machines {
		mlist = append(mlist, m)
	}
	sortStrings(mlist)
	nk := r.Pick(1, 1, 1, 1, 2, 2, 3, 4)
	kills := 0
	for k := 0; k < nk; k++ {
		e := cands[r.Intn(len(cands))]
		f := &simnet.Fault{At: simnet.Match{Point: e.Point, Method: e.Method, Callee: e.Callee, Key: e.Key, Occ: e.Occ}}
		switch x := r.Intn(20); {
		case x < 11:
			f.Do = "kill"
			kills++
		case x < 14:
			f.Do = "kill"
			f.Target = mlist[r.Intn(len(mlist))]
			kills++
		case x < 16:
			f.Do = "drop"
		case x < 17:
			f.Do = "stall"
			kills++ // a stalled machine may be declared lost
			f.Arg = int64(time.Duration(r.Pick(3, 30, 200)) * time.Second)
		case x < 19 && e.Method == "Worker.Read":
			f.At.Point = "chunk"
			f.At.Occ = 1
			f.Do = "cut"
			f.Arg = int64(r.Pick(0, 1, 5, 17, 100, 1000))
		default:
			f.Do = "kill"
			kills++
		}
		c.Faults = append(c.Faults, f)
	}
	// Sometimes: the machine dies right after a task's run returned, and the
	// driver goroutine is held until the loss has been noticed (the window
	// between a task's completion and the driver recording it).
	if r.Chance(0.2) {
		ka := 3 * time.Minute
		if len(c.Config.Keepalive) > 1 {
			ka = 40 * time.Second
		}
		c.Faults = append(c.Faults, &simnet.Fault{At: simnet.Match{Point: "yield", Method: "bm.returned", Occ: 1 + r.Intn(6)}, Do: "kill", Arg: int64(ka)})
		kills++
	}
	// Replacement policy.
	if r.Chance(0.25) && kills < len(mlist) {
		c.Config.MaxMachines = len(mlist)
	}
	// With losses that stop and capacity to recover, everything must succeed.
	if kills <= 2 {
		for k := range c.Script {
			c.Script[k].MustSucceed = true
		}
	}
	return c
}

// sweepC02 enumerates single-kill cases over every faultable seam event of a base case.
func sweepC02(seed uint64, which int) []*world.Case {
	s := seedFor(seed, "C02-sweep", which)
	r := gen.New(s)
	cfg := clusterConfig(r)
	cfg.Parallelism = 4
	cfg.Procs = 2
	base := &world.Case{Format: 1, Property: "C02", Seed: s, Config: cfg,
		Script: c02Script(r, which, cfg.Chunk),
		Oracle: world.Oracle{Rows: true, Liveness: true}}
	for k := range base.Script {
		base.Script[k].MustSucceed = true
	}
	evs, ro := recon(base)
	if ro.Verdict != "ok" {
		return []*world.Case{base}
	}
	machines := map[string]bool{}
	for _, e := range evs {
		if e.Callee != "" {
			machines[e.Callee] = true
		}
	}
	var out []*world.Case
	for _, e := range evs {
		if !faultable(e) {
			continue
		}
		at := simnet.Match{Point: e.Point, Method: e.Method, Callee: e.Callee, Key: e.Key, Occ: e.Occ}
		// Kill the callee.
		c := cloneCase(base)
		c.Faults = []*simnet.Fault{{At: at, Do: "kill"}}
		out = append(out, c)
		// Kill each other machine at this instant (bystander / dependency holder).
		for m := range machines {
			if m == e.Callee {
				continue
			}
			c := cloneCase(base)
			c.Faults = []*simnet.Fault{{At: at, Do: "kill", Target: m}}
			out = append(out, c)
		}
		if e.Point == "reply" && e.Method == "Worker.Run" {
			c := cloneCase(base)
			c.Faults = []*simnet.Fault{{At: at, Do: "drop"}}
			out = append(out, c)
		}
	}
	return out
}

// C02 — machine loss gives correct rows or an error, never wrong rows or a hang.
func C02(tier string, seed uint64) int {
	nsweep := 2
	n := 600
	var budget time.Duration
	if tier != "quick" {
		nsweep = 12
		n = 3000
		budget = 25 * time.Minute
	}
	var sweep []*world.Case
	for k := 0; k < nsweep; k++ {
		sweep = append(sweep, sweepC02(seed, k)...)
	}
	fmt.Printf("verif: C02 single-fault sweep: %d cases over %d base programs\n", len(sweep), nsweep)
	b := &Batch{
		Property: "C02", Tier: tier, Seed: seed, Level: "fault_enumeration",
		Rule: "fault-suite programs (map-only, reduce, cogroup, fold, multi-stage, reused results) on the simulated cluster; (a) sweep: for each base program, one run per (RPC seam event of the fault-free run x {kill callee, kill each other machine, drop Worker.Run reply}); (b) seeded plans of 1-4 faults (kill callee/bystander, drop, stall, cut-stream) placed on seam events of a reconnaissance run, with or without replacement machines; oracle: success with rows == reference, or error; no hang within 4h simulated; success required when at most 2 kills and capacity remains; distinct = distinct (ordered seam-event sequence, per-step result digest)",
		Gen: func(i int) *world.Case {
			if i < len(sweep) {
				return sweep[i]
			}
			return GenC02(seed, i-len(sweep))
		},
		N:      len(sweep) + n,
		Budget: budget,
		ExtraEvidence: func() map[string]any {
			return map[string]any{"sweep_cases": len(sweep), "sweep_base_programs": nsweep}
		},
	}
	return b.Run()
}
