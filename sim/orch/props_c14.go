package orch

import (
	"fmt"
	"time"

	"verifsim/gen"
	"verifsim/simnet"
	"verifsim/world"
)

// GenC14 generates whole-system runs for the capacity monitor: programs with
// Procs/Exclusive pragmas, exclusive Funcs, several max-load settings, and
// faults on every step of a task run (compile, run, combiner commit).
func GenC14(seed uint64, i int) *world.Case {
	s := seedFor(seed, "C14", i)
	r := gen.New(s)
	cfg := gen.Config(r, "")
	if r.Chance(0.75) {
		cfg.Executor = "cluster"
	}
	cfg.Procs = r.Pick(1, 2, 4, 8)
	cfg.MaxLoad = []float64{0, 0.3, 0.5, 0.95, 1.0, 0.05}[r.Intn(6)]
	cfg.Parallelism = r.Pick(1, 2, 4, 8, 12)
	cfg.SortCanary = 0
	cfg.UserDelays = true
	if cfg.Chunk == 1 {
		cfg.Chunk = 4
	}
	cfg.MachineCombiners = cfg.Executor == "cluster" && r.Chance(0.3)
	c := &world.Case{Format: 1, Property: "C14", Seed: s, Config: cfg, Oracle: world.Oracle{Rows: true, Liveness: true, Capacity: true}}
	nruns := 1 + r.Intn(3)
	var clients [][]world.Step
	for k := 0; k < nruns; k++ {
		so := gen.SpecOpts{MaxOps: 1 + r.Intn(5), Chunk: cfg.Chunk, Tag: fmt.Sprintf("t%d", k), NoWeak: true, NoObserver: true, Small: true, KeyTypes: []string{"int", "string"}}
		if cfg.MachineCombiners {
			// Machine combiners only matter for reduces: make sure there is one.
			so.ForceOps = []string{"reduce"}
			so.Small = false
		}
		sp := gen.Spec(r, so)
		// Sprinkle pragmas generously.
		for ni := range sp.Nodes {
			switch sp.Nodes[ni].Op {
			case "readerfunc", "map", "filter", "flatmap":
				switch r.Intn(6) {
				case 0:
					sp.Nodes[ni].Prag = []string{"exclusive"}
				case 1:
					sp.Nodes[ni].Prag = []string{fmt.Sprintf("procs:%d", r.Pick(1, 2, 3, 9))}
				}
			}
		}
		st := world.Step{Op: "run", ID: fmt.Sprintf("r%d", k+1), Func: "prog0", Spec: sp, Exclusive: cfg.Executor == "cluster" && r.Chance(0.2)}
		clients = append(clients, []world.Step{st, {Op: "scan", Of: st.ID}})
	}
	if len(clients) > 1 && r.Chance(0.6) {
		c.Script = []world.Step{{Op: "par", Par: clients}}
	} else {
		for _, cl := range clients {
			c.Script = append(c.Script, cl...)
		}
	}
	if r.Chance(0.25) {
		// A task that fails in user code is an exit path too: a persistent panic in
		// a reduce function (wherever it is called from: the task's own table, the
		// shared buffer, the consumer's merge of its dependencies) or a reader error;
		// afterwards a fault-free run has to find all capacity returned.
		var sites []string
		walkSteps(c.Script, func(st *world.Step) {
			if st.Spec == nil {
				return
			}
			for ni, n := range st.Spec.Nodes {
				if n.Op == "reduce" || n.Op == "readerfunc" {
					sites = append(sites, n.Op+"|"+st.Spec.Site(ni))
				}
			}
		})
		if len(sites) > 0 {
			pick := sites[r.Intn(len(sites))]
			for _, s2 := range sites {
				if s2[:6] == "reduce" && r.Chance(0.7) {
					pick = s2
					break
				}
			}
			mode := "panic"
			if pick[:6] != "reduce" {
				mode = r.PickS("error", "panic")
			}
			site := pick[7:]
			if pick[:6] != "reduce" {
				site = pick[len("readerfunc|"):]
			}
			c.UFaults = []*world.UFault{{Site: site, Mode: mode, Skip: r.Pick(0, 0, 3)}}
			zsp := gen.KVProgram(r, "z")
			c.Script = append(c.Script,
				world.Step{Op: "run", ID: "rz", Func: "prog0", Spec: zsp, MustSucceed: true},
				world.Step{Op: "scan", Of: "rz", MustSucceed: true})
		}
	}
	if cfg.Executor == "cluster" && len(c.UFaults) == 0 && r.Chance(0.5) {
		evs, ro := recon(c)
		if ro.Verdict == "ok" {
			var cands []simnet.Event
			for _, e := range evs {
				switch e.Method {
				case "Worker.Compile", "Worker.Run", "Worker.CommitCombiner", "Worker.Stat", "Worker.Read":
					if e.Point == "send" || e.Point == "reply" {
						cands = append(cands, e)
					}
				}
			}
			// Every exit path of a task run must return its procs: prefer the
			// rarer steps (combiner commit, compile) over the plentiful ones.
			var rare []simnet.Event
			for _, e := range cands {
				if e.Method == "Worker.CommitCombiner" || e.Method == "Worker.Compile" {
					rare = append(rare, e)
				}
			}
			for k := 0; k < 1+r.Intn(2) && len(cands) > 0; k++ {
				e := cands[r.Intn(len(cands))]
				if len(rare) > 0 && r.Chance(0.6) {
					e = rare[r.Intn(len(rare))]
				}
				f := &simnet.Fault{At: simnet.Match{Point: e.Point, Method: e.Method, Callee: e.Callee, Key: e.Key, Occ: e.Occ}, Do: r.PickS("kill", "kill", "drop")}
				c.Faults = append(c.Faults, f)
			}
		}
	}
	return c
}

func walkSteps(steps []world.Step, f func(st *world.Step)) {
	for i := range steps {
		f(&steps[i])
		for _, p := range steps[i].Par {
			walkSteps(p, f)
		}
	}
}

// C14 — cluster manager: no oversubscription, no leaks.
func C14(tier string, seed uint64) int {
	// Whole-system monitor first (its summary goes into the evidence written by the manager simulation).
	wb := &Batch{
		Property: "C14", Tier: tier, Seed: seed, Level: "exploration",
		Gen:        func(i int) *world.Case { return GenC14(seed, i) },
		N:          500,
		NoEvidence: true,
	}
	if tier != "quick" {
		wb.N = 2500
		wb.Budget = 12 * time.Minute
	}
	exit := wb.Run()
	n, budget := compSizes(tier, 120, 100, 4000, 800)
	cb := &CompBatch{Property: "C14", Engine: "mgrsim", Tier: tier, Seed: seed, Level: "exploration", N: n, BudgetS: budget,
		ExtraCoverage: map[string]any{"whole_system": wb.Summary()},
		Assume: []string{"the whole-system monitor observes the driver's own assignment intervals through the bm.offered/bm.returned yield points (build tag verif); the ordering oracle is applied only in single-machine steps where every queued request fits (the general first-fit-with-reservation behaviour is not re-implemented as an oracle); schedule() is not sampled separately: it runs inside the live manager"},
		CarryViolations: wb.violations}
	exit2 := cb.Run()
	if exit2 > exit {
		exit = exit2
	}
	return exit
}
