package orch

import (
	"fmt"
	osexec "os/exec"
	"path/filepath"
	"strings"
	"time"

	"verifsim/gen"
	"verifsim/simnet"
	"verifsim/spec"
	"verifsim/world"
)

// histGen builds client histories over results.
type histGen struct {
	r       gen.Rand
	chunk   int
	cluster bool
	nres    int
	types   map[string]spec.Type
	live    []string // result ids that exist
	tagSeq  int
}

func (h *histGen) tag() string {
	h.tagSeq++
	return fmt.Sprintf("t%d", h.tagSeq)
}

func (h *histGen) newID() string {
	h.nres++
	return fmt.Sprintf("r%d", h.nres)
}

// runBase creates a fresh program.
func (h *histGen) runBase(must bool) world.Step {
	o := gen.SpecOpts{MaxOps: 1 + h.r.Intn(4), Chunk: h.chunk, Tag: h.tag(), NoWeak: true, NoObserver: true, NoPragmas: true, Small: h.r.Chance(0.5), KeyTypes: []string{"int", "string", "int64", "uint8"}}
	if h.r.Chance(0.2) {
		// A result with a two-column key prefix.
		o.KeyTypes = []string{"int", "string"}
		o.ForceOps = []string{"widen", "prefixed"}
		o.MaxOps = 2
	}
	sp := gen.Spec(h.r, o)
	id := h.newID()
	ts, _ := sp.Types()
	h.types[id] = ts[sp.Root()]
	h.live = append(h.live, id)
	return world.Step{Op: "run", ID: id, Func: "prog0", Spec: sp, MustSucceed: must}
}

// runOver creates a program consuming one or two existing results, through a
// pipelined or a redistributing operator.
func (h *histGen) runOver(must bool) (world.Step, bool) {
	var cands []string
	for _, id := range h.live {
		t := h.types[id]
		if len(t.Cols) >= 2 && !t.IsCG() {
			cands = append(cands, id)
		}
	}
	if len(cands) == 0 {
		return world.Step{}, false
	}
	a := cands[h.r.Intn(len(cands))]
	args := []string{a}
	argTypes := []spec.Type{h.types[a]}
	fn := "prog1"
	if h.r.Chance(0.25) {
		// A second argument of the same type, for cogroup of two results.
		for _, b := range cands {
			if b != a && h.types[b].Equal(h.types[a]) {
				args = append(args, b)
				argTypes = append(argTypes, h.types[b])
				fn = "prog2"
				break
			}
		}
	}
	o := gen.SpecOpts{MaxOps: 1 + h.r.Intn(3), Chunk: h.chunk, Tag: h.tag(), NoWeak: true, NoObserver: true, NoPragmas: true, ArgTypes: argTypes}
	t := h.types[a]
	switch {
	case t.IsKKV() && t.Prefix == 2 && h.r.Chance(0.7):
		// Re-prefix the result and aggregate on the shorter key.
		o.ForceOps = []string{"prefixed", h.r.PickS("fold", "fold", "reshuffle")}
		o.MaxOps = 2
	case !t.IsKV():
	case h.r.Chance(0.5):
		// Redistribute the result directly.
		o.ForceOps = []string{h.r.PickS("reduce", "reshuffle", "reshard", "cogroup", "repartition")}
	default:
		o.ForceOps = []string{h.r.PickS("inc", "filter", "flatmap", "keyfold")}
	}
	sp := gen.Spec(h.r, o)
	usesArg := false
	for _, n := range sp.Nodes {
		if n.Op == "arg" {
			usesArg = true
		}
	}
	if !usesArg {
		return world.Step{}, false
	}
	// Pruning may have dropped an argument node: re-map Arg indices to the args actually used.
	used := map[int]bool{}
	for _, n := range sp.Nodes {
		if n.Op == "arg" {
			used[n.Arg] = true
		}
	}
	if fn == "prog2" && !(used[0] && used[1]) {
		// Keep it simple: pass both anyway; unused arguments are legal.
	}
	id := h.newID()
	ts, _ := sp.Types()
	h.types[id] = ts[sp.Root()]
	h.live = append(h.live, id)
	return world.Step{Op: "run", ID: id, Func: fn, Spec: sp, Args: args, MustSucceed: must}, true
}

func (h *histGen) pick() string { return h.live[h.r.Intn(len(h.live))] }

// GenC12 generates a history of run/scan/reuse/discard/kill operations.
func GenC12(seed uint64, i int) *world.Case {
	s := seedFor(seed, "C12", i)
	r := gen.New(s)
	cfg := gen.Config(r, "")
	cfg.MachineCombiners = false
	cfg.SortCanary = 0
	if cfg.Chunk == 1 {
		cfg.Chunk = 4
	}
	h := &histGen{r: r, chunk: cfg.Chunk, cluster: cfg.Executor == "cluster", types: map[string]spec.Type{}}
	c := &world.Case{Format: 1, Property: "C12", Seed: s, Config: cfg, Oracle: world.Oracle{Rows: true, Liveness: true}}
	c.Script = append(c.Script, h.runBase(true))
	// disturbed: results whose outputs may be gone (discarded or on a killed machine).
	disturbed := map[string]bool{}
	anyKill := false
	n := 2 + r.Intn(7)
	for k := 0; k < n; k++ {
		switch x := r.Intn(22); {
		case x >= 20:
			// A slow consumer: the Scanner is open and part-way through when the
			// result is discarded (and, half of the time, consumed again by a later
			// Func). The scan delivers exactly the rows, or reports an error.
			id := h.pick()
			other := []world.Step{{Op: "sleep", Dur: int64(time.Second)}, {Op: "discard", Of: id}}
			if r.Chance(0.5) {
				if st, ok := h.runOver(false); ok {
					other = append(other, st)
				}
			}
			c.Script = append(c.Script, world.Step{Op: "par", Par: [][]world.Step{
				{{Op: "scan", Of: id, PauseAfterRows: r.Pick(1, 3, 40, 130, 300), PauseNs: int64(time.Duration(r.Pick(2, 5, 60)) * time.Second)}},
				other,
			}})
			disturbed[id] = true
			for _, o := range h.live {
				disturbed[o] = true
			}
		case x < 4:
			id := h.pick()
			c.Script = append(c.Script, world.Step{Op: "scan", Of: id, MustSucceed: !disturbed[id] && !anyKill})
		case x < 6:
			id := h.pick()
			must := !disturbed[id] && !anyKill
			c.Script = append(c.Script, world.Step{Op: "par", Par: [][]world.Step{
				{{Op: "scan", Of: id, MustSucceed: must}},
				{{Op: "scan", Of: id, MustSucceed: must}},
			}})
		case x < 11:
			// A later Func recomputes whatever was discarded or lost.
			if st, ok := h.runOver(true); ok {
				c.Script = append(c.Script, st)
			}
		case x < 13:
			c.Script = append(c.Script, h.runBase(true))
		case x < 15:
			id := h.pick()
			c.Script = append(c.Script, world.Step{Op: "discard", Of: id})
			// Discarding a result discards the whole subgraph it was computed from.
			disturbed[id] = true
			for _, other := range h.live {
				disturbed[other] = true
			}
		case x < 19:
			// discard || run-with-result
			id := h.pick()
			if st, ok := h.runOver(false); ok {
				c.Script = append(c.Script, world.Step{Op: "par", Par: [][]world.Step{
					{{Op: "discard", Of: id}},
					{st},
				}})
				for _, other := range h.live {
					disturbed[other] = true
				}
			}
		default:
			if h.cluster {
				c.Script = append(c.Script, world.Step{Op: "kill", Machine: fmt.Sprintf("m%d", 1+r.Intn(3))})
				anyKill = true
				for _, other := range h.live {
					disturbed[other] = true
				}
			}
		}
	}
	// Widen the window between a discard's bookkeeping and its RPC: delay some Worker.Discard calls.
	if h.cluster && r.Chance(0.6) {
		for k := 0; k < 1+r.Intn(3); k++ {
			c.Faults = append(c.Faults, &simnet.Fault{At: simnet.Match{Point: "send", Method: "Worker.Discard", Occ: 1 + r.Intn(6)}, Do: "delay", Arg: int64(time.Duration(r.Pick(1, 3, 10, 40)) * time.Second)})
		}
	}
	// Finally every result that a Func recomputed... just scan the last one.
	last := h.live[len(h.live)-1]
	c.Script = append(c.Script, world.Step{Op: "scan", Of: last})
	_ = simnet.Fault{}
	return c
}

// C12 — results can be reused, rescanned and discarded without changing their rows.
func C12(tier string, seed uint64) int {
	b := &Batch{
		Property: "C12", Tier: tier, Seed: seed, Level: "exploration",
		Rule: "seeded client histories (3-10 steps) over one session on the local or simulated-cluster executor: run(program), scan, scan||scan, run(program over 1-2 earlier Results through pipelined or redistributing operators), discard, discard||run-with-result, kill(machine); model: every Result has the rows of the reference evaluation of its program (over the model rows of its arguments); oracle: every successful scan equals the model, rows delivered before a scan error are genuine, Funcs run after discards/kills succeed, scans of undisturbed results succeed, every step returns within 4h simulated; distinct = distinct (ordered seam-event sequence, per-step result digests)",
		Gen: func(i int) *world.Case { return GenC12(seed, i) },
		N:   1200,
	}
	if tier != "quick" {
		b.N = 4000
		b.Budget = 25 * time.Minute
	}
	return b.Run()
}

// GenC19 generates concurrent clients in one session.
func GenC19(seed uint64, i int) *world.Case {
	s := seedFor(seed, "C19", i)
	r := gen.New(s)
	cfg := gen.Config(r, "")
	cfg.MachineCombiners = false
	cfg.SortCanary = 0
	cfg.UserDelays = r.Chance(0.7)
	if cfg.Chunk == 1 {
		cfg.Chunk = 4
	}
	h := &histGen{r: r, chunk: cfg.Chunk, cluster: cfg.Executor == "cluster", types: map[string]spec.Type{}}
	c := &world.Case{Format: 1, Property: "C19", Seed: s, Config: cfg, Oracle: world.Oracle{Rows: true, Liveness: true, SingleRunner: true}}
	// Shared base results.
	nbase := 1 + r.Intn(2)
	for k := 0; k < nbase; k++ {
		c.Script = append(c.Script, h.runBase(true))
	}
	if r.Chance(0.3) {
		// A client gives up: a shared result is discarded (so that it has to be
		// recomputed), then several clients run over it at once and one of them
		// cancels its run part-way. The others must be served as if alone.
		if cfg.DelayProfile == "none" || cfg.DelayProfile == "" {
			cfg.DelayProfile = "mixed"
		}
		cfg.UserDelays = true
		victim := h.live[r.Intn(len(h.live))]
		var clients [][]world.Step
		saved := h.live
		for k := 0; k < 2+r.Intn(3); k++ {
			h.live = []string{victim}
			st, ok := h.runOver(true)
			if !ok {
				continue
			}
			if k == 0 || r.Chance(0.25) {
				st.MustSucceed = false
				if r.Chance(0.5) {
					st.CancelAfter = int64(time.Duration(r.Pick(1, 20, 300, 2000, 10000)) * time.Millisecond)
				} else {
					st.CancelAtEvent = r.Pick(1, 2, 3, 5, 8, 13, 21, 34, 55, 89, 144, 300)
				}
				clients = append(clients, []world.Step{st})
				continue
			}
			clients = append(clients, []world.Step{st, {Op: "scan", Of: st.ID, MustSucceed: true}})
		}
		h.live = saved
		if len(clients) >= 2 {
			c.Config = cfg
			if r.Chance(0.5) {
				// Overlapping graphs discarded one after the other: the tasks of
				// victim are discarded twice.
				h.live = []string{victim}
				if st, ok := h.runOver(true); ok {
					c.Script = append(c.Script, st, world.Step{Op: "discard", Of: victim}, world.Step{Op: "discard", Of: st.ID})
				}
				h.live = saved
			}
			c.Script = append(c.Script, world.Step{Op: "discard", Of: victim})
			c.Script = append(c.Script, world.Step{Op: "par", Par: clients})
			return c
		}
	}
	withDiscard := r.Chance(0.3)
	nclients := 2 + r.Intn(4)
	var clients [][]world.Step
	base := append([]string(nil), h.live...)
	for k := 0; k < nclients; k++ {
		var cl []world.Step
		if withDiscard && k == 0 {
			cl = append(cl, world.Step{Op: "discard", Of: base[r.Intn(len(base))]})
			clients = append(clients, cl)
			continue
		}
		nsteps := 1 + r.Intn(3)
		for j := 0; j < nsteps; j++ {
			switch x := r.Intn(10); {
			case x < 5:
				// Restrict arguments to the shared base results: results of
				// other clients may not exist yet.
				saved := h.live
				h.live = base
				st, ok := h.runOver(!withDiscard)
				h.live = saved
				if ok {
					h.live = append(h.live, st.ID)
					cl = append(cl, st)
					cl = append(cl, world.Step{Op: "scan", Of: st.ID, MustSucceed: !withDiscard})
				}
			case x < 7:
				st := h.runBase(true)
				cl = append(cl, st, world.Step{Op: "scan", Of: st.ID, MustSucceed: true})
			default:
				cl = append(cl, world.Step{Op: "scan", Of: base[r.Intn(len(base))], MustSucceed: !withDiscard})
			}
		}
		clients = append(clients, cl)
	}
	c.Script = append(c.Script, world.Step{Op: "par", Par: clients})
	return c
}

// C19 — concurrent runs in a session.
func C19(tier string, seed uint64) int {
	b := &Batch{
		Property: "C19", Tier: tier, Seed: seed, Level: "exploration",
		Rule: "1-2 shared base results, then 2-5 concurrent client goroutines in one session (runs over the shared results through pipelined and redistributing operators, fresh runs, scans of shared results, optionally one client discarding a shared result), both executors, seeded virtual delays at RPC seams, in user functions and at the simhook yield points; oracle: every successful scan equals the reference of its program as if run alone, all steps succeed when nobody discards, no task has two Executor.Run calls in flight at once (yield-hook monitor), every client returns within 4h simulated; thorough tier re-runs a sample under the race detector (any race report with frames in /repo is a violation); distinct = distinct (ordered seam-event sequence, per-step digests)",
		Gen: func(i int) *world.Case { return GenC19(seed, i) },
		N:   1000,
		Judge: raceJudge,
	}
	if tier != "quick" {
		// The thorough tier runs every third case under the race detector.
		out, err := osexec.Command(filepath.Join(Verif, "bin", "build.sh"), "race").CombinedOutput()
		if err != nil {
			fmt.Printf("verif: building the race binary failed: %v\n%s\n", err, out)
			return 2
		}
		b.Gen = func(i int) *world.Case {
			c := GenC19(seed, i)
			if c != nil && i%3 == 0 {
				c.Config.Race = true
			}
			return c
		}
		b.N = 3000
		b.Budget = 20 * time.Minute
	}
	return b.Run()
}

// raceJudge is the default judge plus: a report of the race detector (race
// build only) with frames in /repo is a violation.
func raceJudge(c *world.Case, o *world.Outcome) string {
	if cl := violationClass(o); cl != "" {
		return cl
	}
	if o.Extra != nil {
		if rr, ok := o.Extra["race_report"].(string); ok && strings.Contains(rr, "/repo/") {
			o.Detail = "data race reported by the race detector (reports do not replay by seed; the case does): " + firstLines(rr, 40)
			// The class names the first racing function inside bigslice, so that
			// different races are different violations (and findings).
			site := ""
			for _, l := range strings.Split(rr, "\n") {
				l = strings.TrimSpace(l)
				if strings.HasPrefix(l, "github.com/grailbio/bigslice") {
					site = strings.TrimSuffix(l[strings.LastIndex(l, "/")+1:], "()")
					break
				}
			}
			return "data-race@" + site
		}
	}
	return ""
}

func firstLines(s string, n int) string {
	lines := strings.SplitN(s, "\n", n+1)
	if len(lines) > n {
		lines = lines[:n]
	}
	return strings.Join(lines, "\n")
}
