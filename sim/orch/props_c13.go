package orch

import (
	"fmt"
	"os"
	"path/filepath"
	"sort"
	"time"

	"verifsim/gen"
	"verifsim/simfs"
	"verifsim/simnet"
	"verifsim/spec"
	"verifsim/world"
)

// c13Spec generates a program with one cache operator at a random position.
func c13Spec(r gen.Rand, tag, prefix string, chunk int) (*spec.Spec, int) {
	for try := 0; try < 50; try++ {
		o := gen.SpecOpts{MaxOps: 2 + r.Intn(5), Chunk: chunk, Tag: tag, NoObserver: true, NoPragmas: true, NoWeak: true, NoScanOp: true,
			KeyTypes: []string{"int", "string", "int64"}, CachePrefix: prefix}
		pos := r.Intn(4)
		switch pos {
		case 0:
			o.ForceOps = []string{r.PickS("cache", "cachepartial")}
		case 1:
			o.ForceOps = []string{r.PickS("inc", "filter", "flatmap"), r.PickS("cache", "cachepartial")}
		case 2:
			o.ForceOps = []string{r.PickS("reduce", "reshuffle", "reshard"), r.PickS("cache", "cachepartial")}
		default:
			o.ForceOps = []string{r.PickS("cache", "cachepartial"), "head"}
		}
		sp := gen.Spec(r, o)
		ncache, ci := 0, -1
		for i, n := range sp.Nodes {
			if n.Op == "cache" || n.Op == "cachepartial" {
				ncache++
				ci = i
			}
			// Reader sources only: their per-shard call counts are observable.
			if n.Op == "const" {
				sp.Nodes[i].Op = "readerfunc"
			}
		}
		if ncache != 1 {
			continue
		}
		if in := sp.Nodes[ci].In[0]; r.Chance(0.25) {
			// The cache operator directly on a pipeline break that is not a shuffle:
			// its input is materialized, so the cache is the first operator of its task.
			switch sp.Nodes[in].Op {
			case "readerfunc", "map", "filter", "flatmap":
				sp.Nodes[in].Prag = []string{"materialize"}
			}
		}
		if _, err := sp.Types(); err != nil {
			continue
		}
		return sp, ci
	}
	panic("c13Spec: could not generate")
}

func ancestors(sp *spec.Spec, i int) []int {
	seen := map[int]bool{}
	var walk func(k int)
	walk = func(k int) {
		for _, in := range sp.Nodes[k].In {
			if !seen[in] {
				seen[in] = true
				walk(in)
			}
		}
	}
	walk(i)
	var out []int
	for k := range seen {
		out = append(out, k)
	}
	sort.Ints(out)
	return out
}

func retag(sp *spec.Spec, tag string) *spec.Spec {
	c := cloneSpec(sp)
	c.Tag = tag
	return c
}

// GenC13 runs the first process(es) of a cache history itself and returns the
// final process as the case to be judged.
func GenC13(seed uint64, i int) *world.Case {
	s := seedFor(seed, "C13", i)
	r := gen.New(s)
	cfg := gen.Config(r, "")
	cfg.MachineCombiners = false
	cfg.SortCanary = 0
	if cfg.Chunk == 1 {
		cfg.Chunk = 2
	}
	prefix := fmt.Sprintf("simfs://cache/%x/", s&0xffffff)
	sp, ci := c13Spec(r, "a", prefix, cfg.Chunk)
	snap := filepath.Join(Scratch(), fmt.Sprintf("fs-%d-%x.json", i, s&0xffffffff))
	p1 := &world.Case{Format: 1, Property: "C13", Seed: s, Config: cfg,
		Script: []world.Step{{Op: "run", ID: "r1", Func: "prog0", Spec: sp}, {Op: "scan", Of: "r1"}},
		FS:     &world.FSPlan{Dump: snap},
		Oracle: world.Oracle{Rows: true, Liveness: true, CacheFiles: true}}
	variant := r.Intn(10)
	mode := "clean"
	switch {
	case variant < 3:
		// Clean first run.
		p1.Script[0].MustSucceed = true
		p1.Script[1].MustSucceed = true
	case variant < 6:
		mode = "fs-fault"
		op := r.PickS("create", "write", "write", "write", "close", "stat")
		do := r.PickS("error", "error", "short")
		if op != "write" {
			do = "error"
		}
		p1.FS.Faults = []*simfs.Fault{{Op: op, PathSub: prefix, Occ: 1 + r.Intn(6), Do: do, Sticky: r.Chance(0.3)}}
	case variant < 8:
		mode = "fs-crash"
		p1.FS.Faults = []*simfs.Fault{{Op: r.PickS("create", "write", "write", "close"), PathSub: prefix, Occ: 1 + r.Intn(8), Do: "crash"}}
	case variant < 9 && cfg.Executor == "cluster":
		mode = "kill"
		p1.Faults = []*simnet.Fault{{At: simnet.Match{Point: r.PickS("send", "reply"), Method: "Worker.Run", Occ: 1 + r.Intn(4)}, Do: "kill"}}
	default:
		mode = "user-error"
		// The reader of some shard fails after some rows.
		for ni, n := range sp.Nodes {
			if n.Op == "readerfunc" {
				p1.UFaults = []*world.UFault{{Site: sp.Site(ni), Mode: "error", Skip: 1 + r.Intn(3), Times: 1}}
				break
			}
		}
	}
	o1 := RunCase(p1, RunOpts{})
	defer os.Remove(snap)
	if violationClass(o1) != "" || o1.Verdict == "infra" || o1.Verdict == "stall" {
		// The first process itself misbehaves: let the batch judge it.
		p1.FS.Dump = ""
		return p1
	}
	// Second process: same durable state, same program.
	sp2 := retag(sp, "b")
	p2 := &world.Case{Format: 1, Property: "C13", Seed: s, Config: cfg,
		Script: []world.Step{{Op: "run", ID: "r1", Func: "prog0", Spec: sp2, MustSucceed: true}, {Op: "scan", Of: "r1", MustSucceed: true}},
		FS:     &world.FSPlan{},
		Oracle: world.Oracle{Rows: true, Liveness: true, CacheFiles: true, SiteCalls: true}}
	// Carry the durable state inside the case so that it is self-contained.
	fs := simfs.Global() // only used as a container type here
	_ = fs
	files := loadSnapshot(snap)
	p2.FS.Preload = files
	// Which shard files are present?
	ref, _ := spec.Eval(sp, nil)
	nshard := ref.Vals[sp.Nodes[ci].In[0]].NShard
	var present []int
	for sh := 0; sh < nshard; sh++ {
		if _, ok := files[fmt.Sprintf("%s-%04d-of-%04d", sp.Nodes[ci].Cache, sh, nshard)]; ok {
			present = append(present, sh)
		}
	}
	// A fault-free first run that succeeded has written every shard's file — also
	// the files of shards without rows — unless something downstream stops reading
	// the cached slice before its end (Head), in which case a shard's file may
	// legitimately be missing.
	var missing []int
	if mode == "clean" && o1.Verdict == "ok" && stepOK(o1, 0) && stepOK(o1, 1) {
		hasHead := false
		for _, n := range sp.Nodes {
			if n.Op == "head" {
				hasHead = true
			}
		}
		if !hasHead {
			have := map[int]bool{}
			for _, sh := range present {
				have[sh] = true
			}
			for sh := 0; sh < nshard; sh++ {
				if !have[sh] {
					missing = append(missing, sh)
				}
			}
		}
	}
	// After a clean run, sometimes drop a subset of the files.
	if mode == "clean" && o1.Verdict == "ok" && r.Chance(0.5) && len(present) > 0 {
		k := 1 + r.Intn(len(present))
		r.Shuffle(len(present), func(a, b int) { present[a], present[b] = present[b], present[a] })
		for _, sh := range present[:k] {
			delete(p2.FS.Preload, fmt.Sprintf("%s-%04d-of-%04d", sp.Nodes[ci].Cache, sh, nshard))
		}
		present = present[k:]
		sort.Ints(present)
		mode = "clean-subset"
	}
	// Is the cache node pipelined with its reader source (no shuffle in between)?
	pipelined := true
	var sites, readers []string
	k := ci
	for len(sp.Nodes[k].In) == 1 {
		k = sp.Nodes[k].In[0]
		switch sp.Nodes[k].Op {
		case "reduce", "fold", "cogroup", "reshuffle", "reshard", "repartition":
			pipelined = false
		}
	}
	if len(sp.Nodes[k].In) > 1 {
		pipelined = false
	}
	// Only nodes that the result needs exclusively through the cache node:
	// a node that is also consumed on another path is legitimately computed.
	reach := map[int]bool{}
	var walkReach func(k int)
	walkReach = func(k int) {
		if reach[k] || k == ci {
			return
		}
		reach[k] = true
		for _, in := range sp.Nodes[k].In {
			walkReach(in)
		}
	}
	walkReach(sp.Root())
	for _, a := range ancestors(sp, ci) {
		if reach[a] {
			pipelined = false
			continue
		}
		switch sp.Nodes[a].Op {
		case "readerfunc", "map", "filter", "flatmap", "reduce", "fold", "repartition":
			sites = append(sites, sp2.Site(a))
		}
		if sp.Nodes[a].Op == "readerfunc" {
			readers = append(readers, sp2.Site(a))
		}
	}
	shardsNonEmpty := map[string]bool{}
	if pipelined {
		src := ref.Vals[k]
		for sh := range src.Shards {
			shardsNonEmpty[fmt.Sprint(sh)] = true // a reader is called at least once even for an empty shard
		}
	}
	p2.Meta = map[string]any{"mode": mode, "cache_op": sp.Nodes[ci].Op, "nshard": nshard, "present": present,
		"pipelined": pipelined, "upstream_sites": sites, "reader_sites": readers, "first_run_ok": o1.Verdict == "ok" && stepOK(o1, 0), "missing_after_clean": missing}
	return p2
}

func stepOK(o *world.Outcome, idx int) bool {
	return idx < len(o.Steps) && o.Steps[idx].Err == ""
}

func loadSnapshot(path string) map[string][]byte {
	fs := &snapshotFS{}
	return fs.load(path)
}

type snapshotFS struct{}

func (snapshotFS) load(path string) map[string][]byte {
	b, err := os.ReadFile(path)
	if err != nil {
		return map[string][]byte{}
	}
	var m map[string][]byte
	if err := jsonUnmarshal(b, &m); err != nil || m == nil {
		return map[string][]byte{}
	}
	return m
}

func metaInts(v any) []int {
	var out []int
	switch x := v.(type) {
	case []int:
		return x
	case []any:
		for _, e := range x {
			if f, ok := e.(float64); ok {
				out = append(out, int(f))
			}
		}
	}
	return out
}

func metaStrings(v any) []string {
	var out []string
	switch x := v.(type) {
	case []string:
		return x
	case []any:
		for _, e := range x {
			if s, ok := e.(string); ok {
				out = append(out, s)
			}
		}
	}
	return out
}

// judgeC13 adds the "cached shards are not recomputed" oracle.
func judgeC13(c *world.Case, o *world.Outcome) string {
	if cl := violationClass(o); cl != "" {
		return cl
	}
	if c.Meta == nil || o.Verdict != "ok" || o.Extra == nil || c.Meta["mode"] == "known-zstd" {
		return ""
	}
	if miss := metaInts(c.Meta["missing_after_clean"]); len(miss) > 0 {
		o.Detail = fmt.Sprintf("a fault-free run completed successfully, yet the cache holds no file for shard(s) %v of %v: the next run cannot skip their computation", miss, c.Meta["nshard"])
		return "cache-file-missing-after-successful-run"
	}
	calls := map[string]int{}
	if m, ok := o.Extra["site_calls"].(map[string]any); ok {
		for k, v := range m {
			if f, ok := v.(float64); ok {
				calls[k] = int(f)
			}
		}
	}
	nshard := 0
	switch x := c.Meta["nshard"].(type) {
	case int:
		nshard = x
	case float64:
		nshard = int(x)
	}
	present := metaInts(c.Meta["present"])
	all := len(present) == nshard && nshard > 0
	op, _ := c.Meta["cache_op"].(string)
	pipelined, _ := c.Meta["pipelined"].(bool)
	if all {
		// Every shard is cached: no upstream computation at all.
		for _, site := range metaStrings(c.Meta["upstream_sites"]) {
			if calls[site] > 0 {
				o.Detail = fmt.Sprintf("all %d shard files were present, yet the upstream function %s was called %d times", nshard, site, calls[site])
				return "cached-recomputed"
			}
		}
		return ""
	}
	if op == "cache" && pipelined && len(present) > 0 {
		// Cache is all-or-nothing: with a shard file missing, every shard is
		// computed again (and its file rewritten), none is served from old files.
		for _, site := range metaStrings(c.Meta["reader_sites"]) {
			for _, sh := range present {
				if calls[fmt.Sprintf("%s#s%d", site, sh)] == 0 {
					o.Detail = fmt.Sprintf("Cache: %d of %d shard files were present, yet shard %d was served from its old file (its reader %s was never called)", len(present), nshard, sh, site)
					return "cache-served-incomplete-set"
				}
			}
		}
	}
	if op == "cachepartial" && pipelined {
		for _, site := range metaStrings(c.Meta["reader_sites"]) {
			for _, sh := range present {
				if n := calls[fmt.Sprintf("%s#s%d", site, sh)]; n > 0 {
					o.Detail = fmt.Sprintf("CachePartial: the file of shard %d was present, yet its reader %s was called %d times", sh, site, n)
					return "cached-recomputed"
				}
			}
		}
	}
	return ""
}

// C13 — caching is transparent, complete-or-absent, and skips recomputation.
func C13(tier string, seed uint64) int {
	b := &Batch{
		Property: "C13", Tier: tier, Seed: seed, Level: "fault_enumeration",
		Rule: "programs with a Cache or CachePartial operator at a seeded position (at the source, after pipelined operators, after a shuffle, under Head) with the cache prefix on the simulated file system, both executors; each case is a two-process history: process 1 runs the program clean, or with a file-system fault at the k-th create/write/close/stat (error, short write, sticky), or with a crash-stop at the k-th file operation (process exit, only published files survive), or with a machine kill, or with a reader error after some rows; process 2 starts from the surviving files (optionally minus a subset of shard files) and runs the same program; oracles: rows == reference in every successful run, every published shard file decodes with the real decoder to exactly its shard's reference rows (at the start and at the end of every process), process 2 succeeds, and with all shards cached no upstream user function is called (CachePartial: none for the shards present when pipelined); distinct = distinct (ordered seam+file-op sequence, result digest)",
		Gen:   func(i int) *world.Case { return GenC13(seed, i) },
		N:     900,
		Judge: judgeC13,
	}
	if tier != "quick" {
		b.N = 3000
		b.Budget = 20 * time.Minute
	}
	// Index 0 is the fixed reproduction of the recorded dependency finding
	// (cgo build, DataDog zstd); every other case uses the pure-Go codec.
	gen0 := b.Gen
	b.Gen = func(i int) *world.Case {
		if i == 0 {
			return knownZstdCase()
		}
		return gen0(i)
	}
	return b.Run()
}

// knownZstdCase is the specific input of the recorded finding: a two-batch
// (int64,int) slice cached on the cluster executor, then read back.
func knownZstdCase() *world.Case {
	mk := func(tag string) *spec.Spec {
		return &spec.Spec{Tag: tag, Nodes: []spec.Node{
			{Op: "readerfunc", Shards: 1, KT: "int64", N: 129, Card: 2, DSeed: 454},
			{Op: "flatmap", M: 1, In: []int{0}},
			{Op: "cachepartial", In: []int{1}, Cache: "simfs://cache/known-zstd/c"},
		}}
	}
	return &world.Case{Format: 1, Property: "C13", Seed: 454,
		Config: world.Config{Executor: "cluster", Procs: 1, Parallelism: 1, DelayProfile: "none", RTSeed: 1, Cgo: true},
		Script: []world.Step{
			{Op: "run", ID: "r1", Func: "prog0", Spec: mk("a"), MustSucceed: true},
			{Op: "run", ID: "r2", Func: "prog0", Spec: mk("b"), MustSucceed: true},
			{Op: "scan", Of: "r2", MustSucceed: true},
		},
		FS:     &world.FSPlan{},
		Oracle: world.Oracle{Rows: true, Liveness: true, CacheFiles: true},
		Meta:   map[string]any{"mode": "known-zstd"}}
}
