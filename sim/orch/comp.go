package orch

import (
	"bytes"
	"context"
	"encoding/json"
	"fmt"
	"os"
	osexec "os/exec"
	"path/filepath"
	"sort"
	"strings"
	"sync"
	"time"

	"verifsim/compkit"
)

// CompBatch describes a component-simulation check.
type CompBatch struct {
	Property string
	Engine   string // binary name suffix: comp-<engine>.test
	Tier     string
	Seed     uint64
	Level    string
	// Procs processes each run N cases (or until BudgetS).
	Procs   int
	N       int
	BudgetS int
	Extra   []string // extra environment for the child
	// ExtraPerProc adds environment for process p (knob swarm).
	ExtraPerProc func(p int) []string
	Assume       []string
	// ExtraCoverage is merged into the evidence coverage.
	ExtraCoverage map[string]any
	// CarryViolations: violations already reported by a companion batch of the same property.
	CarryViolations int
}

// ReplayDoc is the replay file of a component simulation.
type ReplayDoc struct {
	Engine   string          `json:"engine"`
	Property string          `json:"property"`
	Class    string          `json:"violation_class"`
	Detail   string          `json:"detail"`
	Seed     uint64          `json:"seed"`
	Case     json.RawMessage `json:"case"`
}

func runCompChild(engine, testName string, env []string, timeout time.Duration) (string, error) {
	bin := filepath.Join(WorkDir, "bin", "comp-"+engine+".test")
	ctx, cancel := context.WithTimeout(context.Background(), timeout)
	defer cancel()
	cmd := osexec.CommandContext(ctx, bin, "-test.run", "^"+testName+"$", "-test.timeout", "0", "-test.v")
	// Each process gets its own temporary directory (spill-file leak checks look at it).
	tmp, err := os.MkdirTemp(Scratch(), "comp-tmp-")
	if err != nil {
		return "", err
	}
	defer os.RemoveAll(tmp)
	cmd.Env = append([]string{"PATH=" + os.Getenv("PATH"), "HOME=" + os.Getenv("HOME"), "GODEBUG=asyncpreemptoff=1", "TMPDIR=" + tmp}, env...)
	cmd.Dir = Scratch()
	var out bytes.Buffer
	cmd.Stdout = &out
	cmd.Stderr = &out
	err = cmd.Run()
	return out.String(), err
}

// Run executes the component batch and returns the exit code.
func (b *CompBatch) Run() int {
	if b.Procs == 0 {
		b.Procs = 16
	}
	fmt.Printf("verif: property=%s tier=%s VERIF_SEED=%d engine=comp-%s\n", b.Property, b.Tier, b.Seed, b.Engine)
	start := time.Now()
	results := make([]*compkit.Result, b.Procs)
	errs := make([]string, b.Procs)
	var wg sync.WaitGroup
	for p := 0; p < b.Procs; p++ {
		wg.Add(1)
		go func(p int) {
			defer wg.Done()
			out := filepath.Join(Scratch(), fmt.Sprintf("comp-%s-%d.json", b.Engine, p))
			defer os.Remove(out)
			env := append([]string{
				fmt.Sprintf("VERIF_SEED=%d", compkit.Mix(b.Seed, b.Property, "proc", p)),
				"VERIF_TIER=" + b.Tier, "VERIF_OUT=" + out,
				fmt.Sprintf("VERIF_N=%d", b.N), fmt.Sprintf("VERIF_BUDGET_S=%d", b.BudgetS),
				fmt.Sprintf("VERIF_PROC=%d", p),
			}, b.Extra...)
			if b.ExtraPerProc != nil {
				env = append(env, b.ExtraPerProc(p)...)
			}
			text, err := runCompChild(b.Engine, "TestBatch", env, time.Duration(b.BudgetS+600)*time.Second)
			data, rerr := os.ReadFile(out)
			if rerr != nil {
				errs[p] = fmt.Sprintf("no result (%v): %s", err, tail(text, 2000))
				return
			}
			var r compkit.Result
			if jerr := json.Unmarshal(data, &r); jerr != nil {
				errs[p] = jerr.Error()
				return
			}
			results[p] = &r
		}(p)
	}
	wg.Wait()
	merged := &compkit.Result{Probes: map[string]int{}, Faults: map[string]int{}}
	infra := 0
	for p, r := range results {
		if r == nil {
			infra++
			fmt.Printf("verif: component process %d failed: %s\n", p, errs[p])
			continue
		}
		merged.Evaluations += r.Evaluations
		merged.Distinct += r.Distinct // processes use different seeds; overlaps are negligible and make this an over-count at worst by identical cases
		merged.SimSeconds += r.SimSeconds
		if merged.Rule == "" {
			merged.Rule, merged.Stubs, merged.Assumptions = r.Rule, r.Stubs, r.Assumptions
		}
		for k, v := range r.Probes {
			merged.Probes[k] += v
		}
		for k, v := range r.Faults {
			merged.Faults[k] += v
		}
		if len(merged.Samples) < 3 {
			merged.Samples = append(merged.Samples, r.Samples...)
		}
		merged.Violations = append(merged.Violations, r.Violations...)
		if r.Extra != nil {
			if merged.Extra == nil {
				merged.Extra = map[string]any{}
			}
			for k, v := range r.Extra {
				merged.Extra[k] = v
			}
		}
	}
	if len(merged.Samples) > 3 {
		merged.Samples = merged.Samples[:3]
	}
	// Report violations (one per class).
	findings := LoadFindings()
	sort.SliceStable(merged.Violations, func(i, j int) bool { return merged.Violations[i].Class < merged.Violations[j].Class })
	seen := map[string]bool{}
	nViol := 0
	exit := 0
	for _, v := range merged.Violations {
		if seen[v.Class] {
			continue
		}
		seen[v.Class] = true
		known := false
		for _, f := range findings {
			if f.Property == b.Property && f.Class == v.Class {
				ok := true
				for _, req := range f.Requires {
					if req != "" && !strings.Contains(string(v.Case), req) {
						ok = false
					}
				}
				if ok {
					known = true
					if !f.Seen {
						f.Seen = true
						fmt.Printf("KNOWN-FINDING: property=%s class=%s %s\n", b.Property, v.Class, f.Text)
					}
				}
			}
		}
		if known {
			continue
		}
		doc := ReplayDoc{Engine: "comp-" + b.Engine, Property: b.Property, Class: v.Class, Detail: v.Detail, Seed: v.Seed, Case: v.Case}
		// Replay the minimised case in a fresh process before reporting it.
		path := writeCompReplay(&doc)
		if cl, _ := replayComp(&doc, path); cl != v.Class {
			fmt.Printf("verif: violation class %s did not reproduce in a fresh process (got %q); not reported\n", v.Class, cl)
			os.Remove(path)
			infra++
			continue
		}
		fmt.Printf("VIOLATION property=%s replay=%s\n  class=%s detail=%s\n", b.Property, path, v.Class, strings.ReplaceAll(v.Detail, "\n", " "))
		nViol++
		exit = 1
	}
	wall := time.Since(start).Seconds()
	cov := map[string]any{
		"evaluations": merged.Evaluations, "distinct_nontrivial": merged.Distinct, "rule": merged.Rule, "samples": merged.Samples,
		"probes": merged.Probes, "faults_fired": merged.Faults, "simulated_seconds": merged.SimSeconds,
		"runs_per_hour": float64(merged.Evaluations) / wall * 3600, "real_vs_stub": merged.Stubs, "processes": b.Procs, "infra_failures": infra,
	}
	for k, v := range merged.Extra {
		cov[k] = v
	}
	for k, v := range b.ExtraCoverage {
		cov[k] = v
	}
	nViol += b.CarryViolations
	if len(merged.Samples) == 0 {
		cov["samples"] = []any{"(no case was run)"}
	}
	assume := append([]string{
		"dependency shims as for the whole-system checks (base v0.0.9 + API additions, go.mod/config.go overlays), go1.26.8 testing/synctest",
	}, merged.Assumptions...)
	assume = append(assume, b.Assume...)
	ev := Evidence{PropertyID: b.Property, Tier: b.Tier, Seed: int64(b.Seed % (1 << 62)), Level: b.Level, Coverage: cov, Assumptions: assume, WallS: wall, Violations: nViol}
	data, _ := json.MarshalIndent(ev, "", " ")
	os.MkdirAll(filepath.Join(Verif, "evidence"), 0o755)
	if err := os.WriteFile(filepath.Join(Verif, "evidence", b.Property+".json"), data, 0o644); err != nil {
		fmt.Fprintln(os.Stderr, err)
		return 2
	}
	fmt.Printf("verif: property=%s cases=%d distinct=%d violations=%d infra=%d wall=%.0fs probes=%v\n", b.Property, merged.Evaluations, merged.Distinct, nViol, infra, wall, merged.Probes)
	if exit == 0 && (infra > b.Procs/4 || merged.Evaluations == 0) {
		return 2
	}
	return exit
}

func writeCompReplay(doc *ReplayDoc) string {
	dir := filepath.Join(Verif, "replays")
	os.MkdirAll(dir, 0o755)
	b, _ := json.MarshalIndent(doc, "", " ")
	path := filepath.Join(dir, fmt.Sprintf("%s-%s-%s.json", doc.Property, sanitize(doc.Class), compkit.Hash(doc.Case)[:12]))
	os.WriteFile(path, b, 0o644)
	return path
}

// replayComp replays a component case in a fresh process; it returns the
// violation class observed ("" if none).
func replayComp(doc *ReplayDoc, path string) (string, string) {
	casePath := filepath.Join(Scratch(), "replay-case.json")
	os.WriteFile(casePath, doc.Case, 0o644)
	defer os.Remove(casePath)
	out := filepath.Join(Scratch(), "replay-out.json")
	defer os.Remove(out)
	engine := strings.TrimPrefix(doc.Engine, "comp-")
	text, _ := runCompChild(engine, "TestReplay", []string{"VERIF_REPLAY=" + casePath, "VERIF_OUT=" + out}, 10*time.Minute)
	data, err := os.ReadFile(out)
	if err != nil {
		return "", tail(text, 2000)
	}
	var r compkit.Result
	if json.Unmarshal(data, &r) != nil || len(r.Violations) == 0 {
		return "", text
	}
	return r.Violations[0].Class, r.Violations[0].Detail
}
