package orch

import (
	"bytes"
	"context"
	"encoding/json"
	"fmt"
	"os"
	osexec "os/exec"
	"path/filepath"
	"sort"
	"strings"
	"sync"
	"time"

	"verifsim/compkit"
)

// CompBatch describes a component-simulation check.
type CompBatch struct {
	Property string
	Engine   string // binary name suffix: comp-<engine>.test
	Tier     string
	Seed     uint64
	Level    string
	// Procs processes each run N cases (or until BudgetS).
	Procs   int
	N       int
	BudgetS int
	Extra   []string // extra environment for the child
	// ExtraPerProc adds environment for process p (knob swarm).
	ExtraPerProc func(p int) []string
	Assume       []string
	// ExtraCoverage is merged into the evidence coverage.
	ExtraCoverage map[string]any
	// CarryViolations: violations already reported by a companion batch of the same property.
	CarryViolations int
}

// ReplayDoc is the replay file of a component simulation.
type ReplayDoc struct {
	Engine   string          `json:"engine"`
	Property string          `json:"property"`
	Class    string          `json:"violation_class"`
	Detail   string          `json:"detail"`
	Seed     uint64          `json:"seed"`
	Case     json.RawMessage `json:"case"`
	// Env holds the process-wide knobs (vector size, sort canary, mode) the case ran under.
	Env []string `json:"env,omitempty"`
}

func runCompChild(engine, testName string, env []string, timeout time.Duration) (string, error) {
	bin := filepath.Join(WorkDir, "bin", "comp-"+engine+".test")
	ctx, cancel := context.WithTimeout(context.Background(), timeout)
	defer cancel()
	cmd := osexec.CommandContext(ctx, bin, "-test.run", "^"+testName+"$", "-test.timeout", "0", "-test.v")
	// Each process gets its own temporary directory (spill-file leak checks look at it).
	tmp, err := os.MkdirTemp(Scratch(), "comp-tmp-")
	if err != nil {
		return "", err
	}
	defer os.RemoveAll(tmp)
	cmd.Env = append([]string{"PATH=" + os.Getenv("PATH"), "HOME=" + os.Getenv("HOME"), "GODEBUG=asyncpreemptoff=1", "TMPDIR=" + tmp}, env...)
	cmd.Dir = Scratch()
	var out bytes.Buffer
	cmd.Stdout = &out
	cmd.Stderr = &out
	err = cmd.Run()
	return out.String(), err
}

// knobs returns the process-wide knob environment of process p.
func (b *CompBatch) knobs(p int) []string {
	env := append([]string(nil), b.Extra...)
	if b.ExtraPerProc != nil {
		env = append(env, b.ExtraPerProc(p)...)
	}
	return env
}

// Run executes the component batch and returns the exit code.
func (b *CompBatch) Run() int {
	if b.Procs == 0 {
		b.Procs = 16
	}
	fmt.Printf("verif: property=%s tier=%s VERIF_SEED=%d engine=comp-%s\n", b.Property, b.Tier, b.Seed, b.Engine)
	start := time.Now()
	results := make([]*compkit.Result, b.Procs)
	errs := make([]string, b.Procs)
	dead := make([]json.RawMessage, b.Procs)
	var wg sync.WaitGroup
	for p := 0; p < b.Procs; p++ {
		wg.Add(1)
		go func(p int) {
			defer wg.Done()
			out := filepath.Join(Scratch(), fmt.Sprintf("comp-%s-%d.json", b.Engine, p))
			defer os.Remove(out)
			env := append([]string{
				fmt.Sprintf("VERIF_SEED=%d", compkit.Mix(b.Seed, b.Property, "proc", p)),
				"VERIF_TIER=" + b.Tier, "VERIF_OUT=" + out,
				fmt.Sprintf("VERIF_N=%d", b.N), fmt.Sprintf("VERIF_BUDGET_S=%d", b.BudgetS),
				fmt.Sprintf("VERIF_PROC=%d", p),
			}, b.Extra...)
			if b.ExtraPerProc != nil {
				env = append(env, b.ExtraPerProc(p)...)
			}
			defer os.Remove(out + ".current")
			text, err := runCompChild(b.Engine, "TestBatch", env, time.Duration(2*b.BudgetS+240)*time.Second)
			data, rerr := os.ReadFile(out)
			if rerr != nil {
				errs[p] = fmt.Sprintf("no result (%v): %s", err, tail(text, 2000))
				// The case the child was running when it died or was killed.
				if cur, cerr := os.ReadFile(out + ".current"); cerr == nil && len(cur) > 0 {
					dead[p] = cur
				}
				return
			}
			var r compkit.Result
			if jerr := json.Unmarshal(data, &r); jerr != nil {
				errs[p] = jerr.Error()
				return
			}
			results[p] = &r
		}(p)
	}
	wg.Wait()
	merged := &compkit.Result{Probes: map[string]int{}, Faults: map[string]int{}}
	infra := 0
	deadReproduced := false
	for p, r := range results {
		if r == nil {
			// Re-run the case the child died in, alone, in a fresh process: a
			// reproducible crash inside the code under test, or a reproducible
			// hang, is a violation; anything else is infrastructure trouble.
			if dead[p] != nil && deadReproduced {
				// Another child died the same way and its case reproduced; one report is enough.
				continue
			}
			if dead[p] != nil {
				doc := ReplayDoc{Engine: "comp-" + b.Engine, Property: b.Property, Class: "hang", Case: dead[p], Env: b.knobs(p)}
				if cl, detail := replayComp(&doc, ""); cl != "" {
					fmt.Printf("verif: component process %d died; its last case reproduces as %s\n", p, cl)
					merged.Violations = append(merged.Violations, compkit.Violation{Class: cl, Detail: detail, Case: dead[p], Env: b.knobs(p)})
					deadReproduced = true
					continue
				}
			}
			infra++
			fmt.Printf("verif: component process %d failed: %s\n", p, errs[p])
			continue
		}
		merged.Evaluations += r.Evaluations
		merged.Distinct += r.Distinct // processes use different seeds; overlaps are negligible and make this an over-count at worst by identical cases
		merged.SimSeconds += r.SimSeconds
		if merged.Rule == "" {
			merged.Rule, merged.Stubs, merged.Assumptions = r.Rule, r.Stubs, r.Assumptions
		}
		for k, v := range r.Probes {
			merged.Probes[k] += v
		}
		for k, v := range r.Faults {
			merged.Faults[k] += v
		}
		if len(merged.Samples) < 3 {
			merged.Samples = append(merged.Samples, r.Samples...)
		}
		for _, v := range r.Violations {
			v.Env = b.knobs(p)
			merged.Violations = append(merged.Violations, v)
		}
		if r.Extra != nil {
			if merged.Extra == nil {
				merged.Extra = map[string]any{}
			}
			for k, v := range r.Extra {
				merged.Extra[k] = v
			}
		}
	}
	if len(merged.Samples) > 3 {
		merged.Samples = merged.Samples[:3]
	}
	// Report violations (one per class).
	findings := LoadFindings()
	sort.SliceStable(merged.Violations, func(i, j int) bool { return merged.Violations[i].Class < merged.Violations[j].Class })
	seen := map[string]bool{}
	nViol := 0
	exit := 0
	unreproduced := 0
	for _, v := range merged.Violations {
		if seen[v.Class] {
			continue
		}
		seen[v.Class] = true
		known := false
		for _, f := range findings {
			if f.Property == b.Property && f.Class == v.Class {
				ok := true
				for _, req := range f.Requires {
					if req != "" && !strings.Contains(string(v.Case), req) {
						ok = false
					}
				}
				if ok {
					known = true
					if !f.Seen {
						f.Seen = true
						fmt.Printf("KNOWN-FINDING: property=%s class=%s %s\n", b.Property, v.Class, f.Text)
					}
				}
			}
		}
		if known {
			continue
		}
		doc := ReplayDoc{Engine: "comp-" + b.Engine, Property: b.Property, Class: v.Class, Detail: v.Detail, Seed: v.Seed, Case: v.Case, Env: v.Env}
		// Replay the minimised case in a fresh process before reporting it.
		path := writeCompReplay(&doc)
		if cl, _ := replayComp(&doc, path); cl != v.Class {
			fmt.Printf("verif: violation class %s did not reproduce in a fresh process (got %q); not reported\n", v.Class, cl)
			os.Remove(path)
			infra++
			unreproduced++
			continue
		}
		fmt.Printf("VIOLATION property=%s replay=%s\n  class=%s detail=%s\n", b.Property, path, v.Class, strings.ReplaceAll(v.Detail, "\n", " "))
		nViol++
		exit = 1
	}
	wall := time.Since(start).Seconds()
	cov := map[string]any{
		"evaluations": merged.Evaluations, "distinct_nontrivial": merged.Distinct, "rule": merged.Rule, "samples": merged.Samples,
		"probes": merged.Probes, "faults_fired": merged.Faults, "simulated_seconds": merged.SimSeconds,
		"runs_per_hour": float64(merged.Evaluations) / wall * 3600, "real_vs_stub": merged.Stubs, "processes": b.Procs, "infra_failures": infra,
	}
	for k, v := range merged.Extra {
		cov[k] = v
	}
	for k, v := range b.ExtraCoverage {
		cov[k] = v
	}
	nViol += b.CarryViolations
	if len(merged.Samples) == 0 {
		cov["samples"] = []any{"(no case was run)"}
	}
	assume := append([]string{
		"dependency shims as for the whole-system checks (base v0.0.9 + API additions, go.mod/config.go overlays), go1.26.8 testing/synctest",
	}, merged.Assumptions...)
	assume = append(assume, b.Assume...)
	ev := Evidence{PropertyID: b.Property, Tier: b.Tier, Seed: int64(b.Seed % (1 << 62)), Level: b.Level, Coverage: cov, Assumptions: assume, WallS: wall, Violations: nViol}
	data, _ := json.MarshalIndent(ev, "", " ")
	os.MkdirAll(filepath.Join(Verif, "evidence"), 0o755)
	if err := os.WriteFile(filepath.Join(Verif, "evidence", b.Property+".json"), data, 0o644); err != nil {
		fmt.Fprintln(os.Stderr, err)
		return 2
	}
	fmt.Printf("verif: property=%s cases=%d distinct=%d violations=%d infra=%d wall=%.0fs probes=%v\n", b.Property, merged.Evaluations, merged.Distinct, nViol, infra, wall, merged.Probes)
	if exit == 0 && (infra > b.Procs/4 || merged.Evaluations == 0 || unreproduced > 0) {
		// A violation that does not replay means the simulation is not
		// deterministic or the replay file is incomplete: never a silent pass.
		return 2
	}
	return exit
}

func writeCompReplay(doc *ReplayDoc) string {
	dir := filepath.Join(Verif, "replays")
	os.MkdirAll(dir, 0o755)
	b, _ := json.MarshalIndent(doc, "", " ")
	path := filepath.Join(dir, fmt.Sprintf("%s-%s-%s.json", doc.Property, sanitize(doc.Class), compkit.Hash(doc.Case)[:12]))
	os.WriteFile(path, b, 0o644)
	return path
}

// replayComp replays a component case in a fresh process; it returns the
// violation class observed ("" if none).
func replayComp(doc *ReplayDoc, path string) (string, string) {
	casePath := filepath.Join(Scratch(), fmt.Sprintf("replay-case-%d.json", time.Now().UnixNano()))
	os.WriteFile(casePath, doc.Case, 0o644)
	defer os.Remove(casePath)
	out := casePath + ".out"
	defer os.Remove(out)
	engine := strings.TrimPrefix(doc.Engine, "comp-")
	timeout := 10 * time.Minute
	if doc.Class == "hang" {
		timeout = 2 * time.Minute
	}
	start := time.Now()
	text, _ := runCompChild(engine, "TestReplay", append([]string{"VERIF_REPLAY=" + casePath, "VERIF_OUT=" + out}, doc.Env...), timeout)
	data, err := os.ReadFile(out)
	if err != nil {
		// No result: the process died or had to be killed.
		if time.Since(start) >= timeout {
			return "hang", fmt.Sprintf("the case alone, in a fresh process, did not finish within %v of wall time (the code under test blocks or spins)", timeout)
		}
		if fn := crashFrame(text); fn != "" {
			return "crash", "the process crashed inside the code under test: " + firstLine(text, "panic: ", "fatal error: ") + " at " + fn
		}
		return "", tail(text, 2000)
	}
	var r compkit.Result
	if json.Unmarshal(data, &r) != nil || len(r.Violations) == 0 {
		return "", text
	}
	return r.Violations[0].Class, r.Violations[0].Detail
}

// crashFrame returns the innermost non-runtime frame of a Go crash dump if it
// lies in bigslice itself (not in the simulator or the test), else "".
func crashFrame(text string) string {
	i := strings.Index(text, "panic: ")
	if j := strings.Index(text, "fatal error: "); j >= 0 && (i < 0 || j < i) {
		i = j
	}
	if i < 0 {
		return ""
	}
	lines := strings.Split(text[i:], "\n")
	inStack := false
	for _, l := range lines {
		if strings.HasPrefix(l, "goroutine ") {
			if inStack {
				break
			}
			inStack = true
			continue
		}
		if !inStack || l == "" || strings.HasPrefix(l, "\t") {
			continue
		}
		if strings.HasPrefix(l, "panic(") || strings.HasPrefix(l, "runtime.") || strings.HasPrefix(l, "testing.") || strings.HasPrefix(l, "internal/") || strings.HasPrefix(l, "sync.") || strings.HasPrefix(l, "reflect.") {
			continue
		}
		if strings.HasPrefix(l, "github.com/grailbio/bigslice") {
			return strings.TrimSpace(l)
		}
		return ""
	}
	return ""
}

func firstLine(text string, prefixes ...string) string {
	for _, l := range strings.Split(text, "\n") {
		for _, p := range prefixes {
			if strings.HasPrefix(l, p) {
				return l
			}
		}
	}
	return ""
}
