package orch

import (
	"encoding/json"
	"fmt"
	"os"
	osexec "os/exec"
	"path/filepath"
	"strings"
	"time"

	"verifsim/gen"
	"verifsim/interp"
	"verifsim/simnet"
	"verifsim/world"
)

func genArgSpec(r gen.Rand) *interp.ArgSpec {
	kinds := []string{"nil", "int", "string", "struct", "ptr", "ints", "map", "nilptr"}
	a := &interp.ArgSpec{NShard: r.Pick(1, 2, 3, 5), A: r.Intn(1000) - 500, S: []string{"", "x", "héllo \"quoted\"", strings.Repeat("long", 50)}[r.Intn(4)],
		I: kinds[r.Intn(len(kinds))], J: kinds[r.Intn(len(kinds))]}
	switch r.Intn(4) {
	case 0:
		a.Xs = nil
	case 1:
		a.Xs = []int{}
	case 2:
		a.Xs = []int{1, -2, 3}
	default:
		a.XsNil = true
	}
	switch r.Intn(4) {
	case 0:
		a.M = nil
	case 1:
		a.M = map[string]int{}
	case 2:
		a.M = map[string]int{"a": 1, "": -7, "zz": 3}
	default:
		a.MNil = true
	}
	a.St = interp.ArgStruct{A: r.Intn(10), B: "st", C: []int{r.Intn(5)}}
	if r.Chance(0.5) {
		a.St.M = map[string]int{"k": r.Intn(9)}
	}
	if r.Chance(0.4) {
		a.St.P = &interp.ArgStruct{A: 77, B: "nested"}
	}
	switch r.Intn(3) {
	case 0:
		a.Ps = nil
	case 1:
		a.Ps = &interp.ArgStruct{A: 5, B: "p", P: &interp.ArgStruct{B: "pp"}}
	default:
		a.PsNil = true
	}
	return a
}

// GenC16 generates argument-transport cases.
func GenC16(seed uint64, i int) *world.Case {
	s := seedFor(seed, "C16", i)
	r := gen.New(s)
	cfg := gen.Config(r, "")
	if r.Chance(0.8) {
		cfg.Executor = "cluster"
	}
	cfg.MachineCombiners = false
	cfg.SortCanary = 0
	cfg.Parallelism = r.Pick(2, 4, 8)
	cfg.Procs = r.Pick(1, 2)
	c := &world.Case{Format: 1, Property: "C16", Seed: s, Config: cfg, Oracle: world.Oracle{Rows: true, Liveness: true, NoRepeat: true, Graph: true, Capacity: cfg.Executor == "cluster"}}
	switch x := r.Intn(10); {
	case x < 5:
		// Plain argument lists, several invocations in one session.
		for k := 0; k < 1+r.Intn(3); k++ {
			c.Script = append(c.Script, world.Step{Op: "runargs", ID: fmt.Sprintf("a%d", k), Variant: "args", ArgSpec: genArgSpec(r), MustSucceed: true})
		}
		if cfg.Executor == "cluster" && r.Chance(0.4) {
			// A transient network error while an invocation is shipped (the request
			// or the reply of a Worker.Compile is lost): the call is retried, and
			// the worker must still receive the invocation intact.
			c.Faults = append(c.Faults, &simnet.Fault{At: simnet.Match{Point: r.PickS("send", "reply", "reply"), Method: "Worker.Compile", Occ: 1 + r.Intn(3)}, Do: "drop"})
			c.Oracle.NoRepeat = false
		}
	case x < 7 && r.Chance(0.5):
		// A Result reachable both directly and through another Result argument,
		// with the last invocation wide enough to land on machines that have run
		// nothing of the earlier ones (they must compile the nested invocations
		// bottom-up before their first task).
		c.Config.Executor, c.Config.Procs, c.Config.Parallelism = "cluster", 1, r.Pick(4, 8)
		a1 := genArgSpec(r)
		a1.NShard = 1
		c.Script = append(c.Script, world.Step{Op: "runargs", ID: "r1", Variant: "args", ArgSpec: a1, MustSucceed: true})
		c.Script = append(c.Script, world.Step{Op: "runargs", ID: "r2", Variant: "slices", ArgSpec: &interp.ArgSpec{NShard: 1, S: "mid"}, Args: []string{"r1", ""}, MustSucceed: true})
		c.Script = append(c.Script, world.Step{Op: "runargs", ID: "r3", Variant: "slices", ArgSpec: &interp.ArgSpec{NShard: r.Pick(3, 4, 5), S: "top"}, Args: []string{"r2", "r1"}, MustSucceed: true})
		if r.Chance(0.5) {
			c.Script = append(c.Script, world.Step{Op: "runargs", ID: "r4", Variant: "slices", ArgSpec: &interp.ArgSpec{NShard: r.Pick(4, 6), S: "top2"}, Args: []string{"r3", "r1"}, MustSucceed: true})
		}
	case x < 7:
		// Results as Slice-typed arguments, nested, and nil Slices.
		c.Script = append(c.Script, world.Step{Op: "runargs", ID: "r1", Variant: "args", ArgSpec: genArgSpec(r), MustSucceed: true})
		c.Script = append(c.Script, world.Step{Op: "runargs", ID: "r2", Variant: "slices", ArgSpec: &interp.ArgSpec{NShard: r.Pick(1, 3), S: "first"}, Args: []string{"r1", ""}, MustSucceed: true})
		c.Script = append(c.Script, world.Step{Op: "runargs", ID: "r3", Variant: "slices", ArgSpec: &interp.ArgSpec{NShard: r.Pick(1, 2), S: "nested"}, Args: []string{"r2", "r1"}, MustSucceed: true})
		if r.Chance(0.5) {
			c.Script = append(c.Script, world.Step{Op: "runargs", ID: "r4", Variant: "slices", ArgSpec: &interp.ArgSpec{NShard: 2, S: "nils"}, Args: []string{"", ""}, MustSucceed: true})
		}
	case x < 9 && r.Chance(0.35):
		// An invocation that is never run itself (its Func hands its Result
		// argument through) carries an unencodable argument; it reaches the
		// executor only when a later Func uses its Result: that must fail at
		// once on the cluster executor, without retries.
		bad := []string{"unexported", "unregistered", ""}[r.Intn(3)]
		c.Script = append(c.Script, world.Step{Op: "runargs", ID: "r1", Variant: "args", ArgSpec: genArgSpec(r), MustSucceed: true})
		c.Script = append(c.Script, world.Step{Op: "runargs", ID: "p1", Variant: "pass", ArgSpec: &interp.ArgSpec{Bad: bad}, Args: []string{"r1"}})
		st := world.Step{Op: "runargs", ID: "r3", Variant: "slices", ArgSpec: &interp.ArgSpec{NShard: r.Pick(1, 3), S: "after-pass"}, Args: []string{"p1", ""}}
		if bad == "" {
			st.MustSucceed = true
		} else if cfg.Executor == "cluster" {
			st.MustFail = true
			c.Oracle.Graph = false
		}
		c.Script = append(c.Script, st)
		c.Script = append(c.Script, world.Step{Op: "runargs", ID: "ok1", Variant: "args", ArgSpec: genArgSpec(r), MustSucceed: true})
	case x < 9:
		// Unencodable arguments: a prompt fatal error on the cluster executor.
		bad := []string{"func", "chan", "unexported", "unregistered", ""}[r.Intn(5)]
		st := world.Step{Op: "runargs", ID: "b1", Variant: "bad", ArgSpec: &interp.ArgSpec{NShard: 2, Bad: bad}}
		if cfg.Executor == "cluster" {
			st.MustFail = true
		}
		if bad == "unregistered" && r.Chance(0.5) {
			// The same through the interface parameter of ArgFunc.
			a := genArgSpec(r)
			a.I = "unregistered"
			st = world.Step{Op: "runargs", ID: "b1", Variant: "args", ArgSpec: a, MustFail: cfg.Executor == "cluster"}
		}
		c.Script = append(c.Script, st)
		// Unencodable arguments cannot make the gob round trip of the graph oracle either.
		c.Oracle.Graph = false
		// The session stays usable.
		c.Script = append(c.Script, world.Step{Op: "runargs", ID: "ok1", Variant: "args", ArgSpec: genArgSpec(r), MustSucceed: true})
	default:
		// Registry skew: the reply of Worker.FuncLocations of one machine is rewritten.
		c.Config.Executor = "cluster"
		c.Script = append(c.Script, world.Step{Op: "runargs", ID: "a0", Variant: "args", ArgSpec: genArgSpec(r)})
		kind := int64(r.Intn(4))
		c.Faults = []*simnet.Fault{{At: simnet.Match{Point: "reply", Method: "Worker.FuncLocations", Occ: 1 + r.Intn(2)}, Do: "skew", Arg: kind}}
		c.Oracle.NoRepeat = false
		c.Meta = map[string]any{"skew": kind}
	}
	return c
}

func judgeC16(c *world.Case, o *world.Outcome) string {
	if c.Meta != nil && c.Meta["skew"] != nil {
		kind := 0
		switch x := c.Meta["skew"].(type) {
		case int64:
			kind = int(x)
		case float64:
			kind = int(x)
		}
		fired := o.Fired["registry-skew"] > 0
		crashed := o.Verdict == "infra" && o.Class == "process-crash" && strings.Contains(o.Stack, "different funcs")
		switch {
		case kind <= 2 && crashed:
			// Detected, loudly, as designed: the expected outcome.
			o.Verdict, o.Class, o.Detail = "ok", "", "registry skew detected: the driver refused the machine"
			if o.Probes == nil {
				o.Probes = map[string]int{}
			}
			o.Probes["registry_skew_detected"]++
			o.OrderSHA = "skew-crash"
			return ""
		case kind <= 2 && o.Verdict == "ok" && fired:
			o.Detail = "a worker reported a different Func registry but the driver went on using it"
			return "registry-skew-undetected"
		case kind == 3 && crashed:
			o.Detail = "the driver refused a worker whose Func registry is identical"
			return "registry-false-alarm"
		case o.Verdict == "infra" && o.Class == "process-crash" && !crashed:
			return violationClass(o)
		}
		if o.Verdict == "ok" {
			return ""
		}
	}
	return violationClass(o)
}

// C16 — invocations reach workers intact; registry or argument problems fail fast.
func C16(tier string, seed uint64) int {
	// Pure side-oracle: the diff law, exhaustively for lists up to length 5 over 3 letters.
	out := filepath.Join(Scratch(), "difflaw.json")
	cmd := osexec.Command(filepath.Join(WorkDir, "bin", "world.test"), "-test.run", "^TestDiffLaw$")
	cmd.Env = []string{"VERIF_OUT=" + out, "PATH=" + os.Getenv("PATH")}
	text, err := cmd.CombinedOutput()
	var law struct {
		Pairs     int    `json:"pairs"`
		Violation string `json:"violation"`
	}
	if b, rerr := os.ReadFile(out); rerr == nil {
		json.Unmarshal(b, &law)
	} else {
		fmt.Printf("verif: diff-law side oracle did not run: %v %s\n", err, tail(string(text), 500))
		return 2
	}
	b := &Batch{
		Property: "C16", Tier: tier, Seed: seed, Level: "exploration",
		Rule: "Funcs whose rows render their arguments as seen by whoever invoked them (so a worker that decoded something else is visible in the scanned rows), with seeded argument lists over int, string, []int (nil/empty/non-empty/untyped nil), map (same), struct with nested pointer, pointer (nil/non-nil/untyped nil), two interface parameters holding nil/int/string/struct/pointer/slice/map, Results and nil passed as Slice-typed parameters incl. a Result of a Func that took a Result; unencodable arguments (func, chan, struct without exported fields, unregistered type in an interface): Run must return an error on the cluster executor, with no Worker.Run or Worker.Compile sent twice, and the session stays usable; registry skew as a transport fault on the Worker.FuncLocations reply (entry appended / removed / replaced / identical): the driver must refuse loudly iff the lists differ; driver and worker task graphs compared (C08 oracle); pure side-oracle: FuncLocationsDiff law over all pairs of lists <= 5 over 3 letters; distinct = distinct (seam-event sequence, result digest)",
		Gen:   func(i int) *world.Case { return GenC16(seed, i) },
		N:     700,
		Judge: judgeC16,
		ExtraEvidence: func() map[string]any {
			return map[string]any{"diff_law_pairs_exhaustive": law.Pairs, "diff_law_violation": law.Violation}
		},
	}
	if tier != "quick" {
		b.N = 3000
		b.Budget = 15 * time.Minute
	}
	exit := b.Run()
	if law.Violation != "" {
		fmt.Printf("VIOLATION property=C16 replay=%s\n  class=diff-law detail=%s\n", "(pure: "+law.Violation+")", law.Violation)
		return 1
	}
	return exit
}
