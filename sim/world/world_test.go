//go:debug randseednop=0
package world

import "testing"

// TestCase runs the case named by VERIF_CASE and writes the outcome to VERIF_OUT.
func TestCase(t *testing.T) { Main(t) }
