//go:debug randseednop=0
package world

import "testing"

// TestCase runs the case named by VERIF_CASE and writes the outcome to VERIF_OUT.
func TestCase(t *testing.T) { Main(t) }

// TestDiffLaw is the pure side-oracle of C16: FuncLocationsDiff(l, r) is nil
// iff l == r, and otherwise its lines without "+ " entries give l and its
// lines without "- " entries give r. Exhaustive over all pairs of lists of
// length <= 5 over a 3-letter alphabet.
func TestDiffLaw(t *testing.T) { diffLaw(t) }
