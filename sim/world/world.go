package world

import (
	"context"
	"crypto/sha256"
	"encoding/json"
	"fmt"
	"math/rand"
	"os"
	"runtime"
	"sort"
	"strconv"
	"strings"
	"sync"
	"sync/atomic"
	"testing"
	"testing/synctest"
	"time"

	"github.com/grailbio/base/errors"
	"github.com/grailbio/base/log"
	"github.com/grailbio/bigslice"
	"github.com/grailbio/bigslice/exec"

	"verifsim/interp"
	"verifsim/simfs"
	"verifsim/simnet"
	"verifsim/spec"
)

var logTailN = 30

// LivenessBudget is the simulated time after which an unfinished script is a hang.
var LivenessBudget = 4 * time.Hour

type memLog struct {
	mu    sync.Mutex
	lines []string
	n     int
	cap   int
}

func (m *memLog) Level() log.Level { return log.Info }
func (m *memLog) Output(calldepth int, level log.Level, s string) error {
	m.mu.Lock()
	m.n++
	if len(m.lines) >= m.cap+100 {
		m.lines = m.lines[100:]
	}
	m.lines = append(m.lines, time.Now().Format("15:04:05.000 ")+s)
	m.mu.Unlock()
	return nil
}
func (m *memLog) tail(n int) []string {
	m.mu.Lock()
	defer m.mu.Unlock()
	if len(m.lines) < n {
		n = len(m.lines)
	}
	return append([]string(nil), m.lines[len(m.lines)-n:]...)
}
func (m *memLog) count(sub string) int {
	m.mu.Lock()
	defer m.mu.Unlock()
	c := 0
	for _, l := range m.lines {
		if strings.Contains(l, sub) {
			c++
		}
	}
	return c
}

type result struct {
	id    string
	res   *exec.Result
	spec  *spec.Spec
	ref   *spec.Ref
	val   *spec.Val
	err   error
	args  []*result
	calls []int64 // expected counter totals of this invocation alone (-1 unknown)
}

// World is one simulated world.
type World struct {
	c        *Case
	sys      *simnet.System
	sess     *exec.Session
	t0       time.Time
	logger   *memLog
	progress *int64
	wmu      sync.Mutex
	watch    []*watcher
	nwatch   int32

	mu      sync.Mutex
	results map[string]*result
	steps   []StepResult
	obs     []interp.Obs
	uocc    map[string]int
	ufired  map[string]int
	probes  map[string]int
	viol    []violation
	uevents []string
	onYield func(point, key string)
	fsys    *simfs.FS
	cap     *capMon
	// exclusiveInvs: invocation indices of runs made with an exclusive Func.
	exclusiveInvs  map[uint64]bool
	nExclusiveRuns int
}

// sinceStart returns fake nanoseconds since the start of the run (0 before it).
func (w *World) sinceStart() int64 {
	if w.t0.IsZero() {
		return 0
	}
	return int64(time.Since(w.t0))
}

type violation struct {
	class, detail string
}

func (w *World) violate(class, format string, args ...interface{}) {
	w.mu.Lock()
	w.viol = append(w.viol, violation{class, fmt.Sprintf(format, args...)})
	w.mu.Unlock()
}

func (w *World) probe(name string) {
	w.mu.Lock()
	w.probes[name]++
	w.mu.Unlock()
}

func parseDur(s string, def time.Duration) time.Duration {
	if s == "" {
		return def
	}
	d, err := time.ParseDuration(s)
	if err != nil {
		panic(err)
	}
	return d
}

// Main is the entry point of the child process.
func Main(t *testing.T) {
	casePath := os.Getenv("VERIF_CASE")
	outPath := os.Getenv("VERIF_OUT")
	if casePath == "" || outPath == "" {
		t.Skip("VERIF_CASE/VERIF_OUT not set")
	}
	data, err := os.ReadFile(casePath)
	if err != nil {
		t.Fatal(err)
	}
	var c Case
	if err := json.Unmarshal(data, &c); err != nil {
		t.Fatal(err)
	}
	runtime.GOMAXPROCS(1)
	rand.Seed(int64(c.Seed))
	tmp := fmt.Sprintf("/dev/shm/verif-%d", os.Getpid())
	os.MkdirAll(tmp, 0o755)
	os.Setenv("TMPDIR", tmp)
	cleanup := func() { os.RemoveAll(tmp) }
	logger := &memLog{cap: 300}
	tailN := 30
	if v := os.Getenv("VERIF_LOGTAIL"); v != "" {
		fmt.Sscanf(v, "%d", &tailN)
		logger.cap = tailN
	}
	logTailN = tailN
	log.SetOutputter(logger)
	var progress int64
	w := &World{c: &c, logger: logger, progress: &progress,
		results: map[string]*result{}, uocc: map[string]int{}, ufired: map[string]int{}, probes: map[string]int{}}
	finish := func(o *Outcome) {
		o.WallMs = 0
		b, _ := json.Marshal(o)
		if err := os.WriteFile(outPath+".tmp", b, 0o644); err == nil {
			os.Rename(outPath+".tmp", outPath)
		}
		cleanup()
		os.Exit(0)
	}
	// Simulated file system.
	fsys := simfs.Global()
	if c.FS != nil {
		if c.FS.Load != "" {
			if err := fsys.Load(c.FS.Load); err != nil {
				t.Fatalf("loading fs snapshot: %v", err)
			}
		}
		for p, data := range c.FS.Preload {
			fsys.Put(p, data)
		}
		for _, p := range c.FS.Remove {
			fsys.Delete(p)
		}
		fsys.SetFaults(c.FS.Faults)
		fsys.OnCrash = func() {
			if c.FS.Dump != "" {
				fsys.Dump(c.FS.Dump)
			}
			o := w.outcome()
			if o.Extra == nil {
				o.Extra = map[string]any{}
			}
			o.Extra["crashed"] = true
			finish(o)
		}
	}
	fsys.OnOp = func(op simfs.Op) {
		atomic.AddInt64(&progress, 1)
		w.mu.Lock()
		if len(w.uevents) < 200000 {
			w.uevents = append(w.uevents, fmt.Sprintf("%d fs:%s %s %s", w.sinceStart(), op.Op, op.Path, op.Decision))
		}
		w.mu.Unlock()
	}
	w.fsys = fsys
	// Real-time stall watchdog, outside the bubble.
	go func() {
		last := int64(-1)
		idle := 0
		for {
			realSleep(time.Second)
			cur := atomic.LoadInt64(&progress)
			if cur == last {
				idle++
			} else {
				idle = 0
				last = cur
			}
			if idle >= 15 {
				buf := make([]byte, 1<<20)
				n := runtime.Stack(buf, true)
				o := w.outcome()
				o.Verdict = "stall"
				o.Class = "stall"
				o.Detail = "no simulator progress for 15s of wall time"
				o.Stack = string(buf[:n])
				finish(o)
			}
		}
	}()
	defer func() {
		if e := recover(); e != nil {
			o := w.outcome()
			o.Verdict = "infra"
			o.Class = "bubble-panic"
			o.Detail = fmt.Sprint(e)
			finish(o)
		}
	}()
	synctest.Test(t, func(t *testing.T) {
		o := w.run()
		finish(o)
	})
}

// realSleep sleeps in real time; it is only called outside the bubble.
func realSleep(d time.Duration) { time.Sleep(d) }

func (w *World) outcome() *Outcome {
	o := &Outcome{Verdict: "ok", Probes: map[string]int{}, Fired: map[string]int{}}
	w.mu.Lock()
	o.Steps = append([]StepResult(nil), w.steps...)
	for k, v := range w.probes {
		o.Probes[k] = v
	}
	for k, v := range w.ufired {
		if strings.HasPrefix(k, "yield-") || k == "client-cancel" {
			o.Fired[k] += v
		} else {
			o.Fired["user-"+k] += v
		}
	}
	viol := append([]violation(nil), w.viol...)
	uev := append([]string(nil), w.uevents...)
	w.mu.Unlock()
	sort.Slice(o.Steps, func(i, j int) bool { return o.Steps[i].Path < o.Steps[j].Path })
	var lines, order []string
	if w.sys != nil {
		for k, v := range w.sys.Fired() {
			o.Fired[k] += v
		}
		for _, e := range w.sys.Events() {
			lines = append(lines, e.String())
			order = append(order, fmt.Sprintf("%s %s %s %s#%d %s", e.Point, e.Method, e.Callee, e.Key, e.Occ, e.Decision))
		}
	}
	if w.fsys != nil {
		for k, v := range w.fsys.Fired() {
			o.Fired[k] += v
		}
	}
	lines = append(lines, uev...)
	for _, u := range uev {
		if i := strings.IndexByte(u, ' '); i > 0 {
			order = append(order, u[i+1:])
		}
	}
	o.NEvents = len(lines)
	h := sha256.Sum256([]byte(strings.Join(lines, "\n")))
	o.SeamSHA = fmt.Sprintf("%x", h[:8])
	h = sha256.Sum256([]byte(strings.Join(order, "\n")))
	o.OrderSHA = fmt.Sprintf("%x", h[:8])
	if w.c.WantEvents {
		o.Events = lines
		if w.sys != nil {
			o.SeamEvents = w.sys.Events()
		}
	}
	if !w.t0.IsZero() {
		o.SimNs = int64(time.Since(w.t0))
	}
	if len(viol) > 0 {
		o.Verdict = "violation"
		o.Class = viol[0].class
		o.Detail = viol[0].detail
		if len(viol) > 1 {
			o.Extra = map[string]any{"more_violations": len(viol) - 1}
		}
	}
	o.LogTail = w.logger.tail(logTailN)
	return o
}

func (w *World) run() *Outcome {
	c := w.c
	w.t0 = time.Now()
	cfg := c.Config
	exec.DoShuffleReaders = cfg.ShuffleReaders
	exec.ProbationTimeout = parseDur(cfg.Probation, 30*time.Second)
	var opts []exec.Option
	switch cfg.Executor {
	case "local":
		opts = append(opts, exec.Local)
	case "cluster":
		ka := [3]time.Duration{time.Minute, 2 * time.Minute, 10 * time.Second}
		for i := 0; i < len(cfg.Keepalive) && i < 3; i++ {
			ka[i] = parseDur(cfg.Keepalive[i], ka[i])
		}
		w.sys = simnet.New(simnet.Config{
			Procs: cfg.Procs, Keepalive: ka, DelaySeed: cfg.DelaySeed, DelayProfile: cfg.DelayProfile,
			MaxMachines: cfg.MaxMachines, BootDelay: parseDur(cfg.BootDelay, 0), Faults: c.Faults,
		})
		w.sys.OnEvent = func(simnet.Event) { w.tick() }
		opts = append(opts, exec.Bigmachine(w.sys))
	default:
		panic("world: bad executor " + cfg.Executor)
	}
	if cfg.Parallelism > 0 {
		opts = append(opts, exec.Parallelism(cfg.Parallelism))
	}
	if cfg.MaxLoad > 0 {
		opts = append(opts, exec.MaxLoad(cfg.MaxLoad))
	}
	if cfg.MachineCombiners {
		opts = append(opts, exec.MachineCombiners)
	}
	interp.H = interp.Hooks{Point: w.userPoint, Record: w.record, Partition: w.userPartition, WantKeys: c.Oracle.Placement}
	exec.VerifSetYield(w.yield)
	if c.Oracle.Capacity {
		w.installCapacityMonitor()
	}
	if c.Oracle.SingleRunner {
		inflight := map[string]bool{}
		var imu sync.Mutex
		w.onYield = func(point, key string) {
			imu.Lock()
			defer imu.Unlock()
			switch point {
			case "bm.run", "local.run":
				if inflight[key] {
					w.violate("task-run-concurrently", "task %s was handed to the executor while a previous hand-out had not finished", key)
				}
				inflight[key] = true
				w.probe("executor_runs")
			case "bm.done", "local.done":
				delete(inflight, key)
			}
		}
	}
	w.sess = exec.Start(opts...)

	w.checkCacheFiles("at start")
	done := make(chan struct{})
	go func() {
		w.script("", c.Script)
		close(done)
	}()
	select {
	case <-done:
	case <-time.After(LivenessBudget):
		buf := make([]byte, 1<<20)
		n := runtime.Stack(buf, true)
		w.violate("hang", "script not finished after %v of simulated time", LivenessBudget)
		o := w.outcome()
		o.Stack = string(buf[:n])
		return o
	}
	w.checkObservers()
	w.checkNoRepeat()
	w.checkCapacityAtEnd()
	w.checkCacheFiles("at end")
	if c.FS != nil && c.FS.Dump != "" {
		w.fsys.Dump(c.FS.Dump)
	}
	pl := w.checkPlacement()
	gsha := w.checkGraphs()
	o := w.outcome()
	o.GraphSHA = gsha
	if c.Oracle.SiteCalls {
		if o.Extra == nil {
			o.Extra = map[string]any{}
		}
		o.Extra["site_calls"] = w.siteCalls()
	}
	if pl != nil {
		if o.Extra == nil {
			o.Extra = map[string]any{}
		}
		o.Extra["placements"] = pl
	}
	return o
}

func (w *World) addStep(sr StepResult) {
	sr.SimNs = int64(time.Since(w.t0))
	w.mu.Lock()
	w.steps = append(w.steps, sr)
	w.mu.Unlock()
	atomic.AddInt64(w.progress, 1)
}

func (w *World) getResult(id string) *result {
	w.mu.Lock()
	defer w.mu.Unlock()
	return w.results[id]
}

func (w *World) script(prefix string, steps []Step) {
	ctx := context.Background()
	for i := range steps {
		st := &steps[i]
		path := fmt.Sprintf("%s%02d", prefix, i)
		switch st.Op {
		case "run":
			w.stepRun(ctx, path, st)
		case "runargs":
			w.stepRunArgs(ctx, path, st)
		case "scan":
			w.stepScan(ctx, path, st)
		case "discard":
			r := w.getResult(st.Of)
			if r != nil && r.res != nil {
				r.res.Discard(ctx)
			}
			w.addStep(StepResult{Path: path, Op: "discard", ID: st.Of})
		case "kill":
			if w.sys != nil {
				w.sys.Kill(st.Machine)
			}
			w.addStep(StepResult{Path: path, Op: "kill", ID: st.Machine})
		case "sleep":
			time.Sleep(time.Duration(st.Dur))
		case "par":
			var wg sync.WaitGroup
			for k := range st.Par {
				wg.Add(1)
				go func(k int) {
					defer wg.Done()
					w.script(fmt.Sprintf("%s.%d.", path, k), st.Par[k])
				}(k)
			}
			wg.Wait()
		default:
			panic("world: bad step " + st.Op)
		}
	}
}

func errString(err error) string {
	if err == nil {
		return ""
	}
	return err.Error()
}

func (w *World) stepRun(ctx context.Context, path string, st *Step) {
	var fn *bigslice.FuncValue
	switch st.Func {
	case "", "prog0":
		fn = interp.Prog0
	case "prog1":
		fn = interp.Prog1
	case "prog2":
		fn = interp.Prog2
	default:
		panic("world: bad func " + st.Func)
	}
	if st.Exclusive {
		fn = fn.Exclusive()
	}
	r := &result{id: st.ID, spec: st.Spec}
	args := []interface{}{*st.Spec}
	var argVals []*spec.Val
	argsOK := true
	for _, a := range st.Args {
		ar := w.getResult(a)
		if ar == nil || ar.res == nil {
			argsOK = false
			break
		}
		r.args = append(r.args, ar)
		args = append(args, ar.res)
		argVals = append(argVals, ar.val)
	}
	sr := StepResult{Path: path, Op: "run", ID: st.ID}
	if !argsOK {
		sr.Err = "skipped: argument result unavailable"
		r.err = fmt.Errorf("%s", sr.Err)
		w.mu.Lock()
		w.results[st.ID] = r
		w.mu.Unlock()
		w.addStep(sr)
		return
	}
	ref, rerr := spec.Eval(st.Spec, argVals)
	if rerr != nil {
		panic(fmt.Sprintf("world: reference evaluation failed: %v", rerr))
	}
	r.ref = ref
	r.val = ref.Vals[st.Spec.Root()]
	if st.Exclusive {
		w.mu.Lock()
		w.nExclusiveRuns++
		w.mu.Unlock()
	}
	if w.cap != nil {
		// Sites whose task is exclusive (a pragma anywhere in the pipeline
		// makes the whole task exclusive; approximated per node).
		w.cap.mu.Lock()
		for i, n := range st.Spec.Nodes {
			for _, p := range n.Prag {
				if p == "exclusive" {
					w.cap.exclusive[st.Spec.Site(i)] = true
				}
			}
		}
		w.cap.mu.Unlock()
	}
	if st.CancelAfter > 0 || st.CancelAtEvent > 0 {
		var cancel context.CancelFunc
		ctx, cancel = context.WithCancel(ctx)
		fire := func() {
			w.mu.Lock()
			w.ufired["client-cancel"]++
			w.mu.Unlock()
			cancel()
		}
		if st.CancelAfter > 0 {
			tm := time.AfterFunc(time.Duration(st.CancelAfter), fire)
			defer tm.Stop()
		}
		if st.CancelAtEvent > 0 {
			wa := w.addWatcher(st.CancelAtEvent, fire)
			defer func() {
				w.wmu.Lock()
				wa.left = 0
				w.wmu.Unlock()
			}()
		}
		defer cancel()
	}
	res, err := w.sess.Run(ctx, fn, args...)
	if err != nil && (st.CancelAfter > 0 || st.CancelAtEvent > 0) && ctx.Err() != nil {
		// The client gave up; whatever the run reports is acceptable.
		sr.Err = "cancelled by the client: " + err.Error()
		r.err = err
		w.mu.Lock()
		w.results[st.ID] = r
		w.mu.Unlock()
		w.addStep(sr)
		return
	}
	r.err = err
	if err == nil {
		r.res = res
		if st.Exclusive {
			w.mu.Lock()
			if w.exclusiveInvs == nil {
				w.exclusiveInvs = map[uint64]bool{}
			}
			w.exclusiveInvs[exec.VerifResultIndex(res)] = true
			w.mu.Unlock()
		}
	}
	sr.Err = errString(err)
	if err == nil && w.c.Oracle.Counters {
		sc := res.Scope()
		for k := range interp.Counters {
			sr.Counters = append(sr.Counters, interp.Counters[k].Value(sc))
		}
		w.checkCounters(path, r, sr.Counters)
	}
	w.mu.Lock()
	w.results[st.ID] = r
	w.mu.Unlock()
	w.addStep(sr)
	w.checkStepExpect(path, st, err)
}

// stepRunArgs runs one of the argument-shape Funcs and checks that the rows,
// computed by whoever invoked the Func, render the arguments the driver passed.
func (w *World) stepRunArgs(ctx context.Context, path string, st *Step) {
	a := st.ArgSpec
	var (
		fn   *bigslice.FuncValue
		args []interface{}
		want string
	)
	switch st.Variant {
	case "slices":
		fn = interp.ArgFuncSlices
		args = []interface{}{a.NShard, a.S}
		descr := []string{"<nil>", "<nil>"}
		for k := 0; k < 2; k++ {
			if k < len(st.Args) && st.Args[k] != "" {
				r := w.getResult(st.Args[k])
				if r == nil || r.res == nil {
					w.addStep(StepResult{Path: path, Op: "runargs", ID: st.ID, Err: "skipped: argument result unavailable"})
					return
				}
				args = append(args, r.res)
				cols := make([]string, r.res.NumOut())
				for c := range cols {
					cols[c] = r.res.Out(c).String()
				}
				descr[k] = fmt.Sprintf("slice(shards=%d cols=%s prefix=%d)", r.res.NumShard(), strings.Join(cols, ","), r.res.Prefix())
			} else {
				args = append(args, nil)
			}
		}
		want = fmt.Sprintf("tag=%q a=%s b=%s", a.S, descr[0], descr[1])
	case "bad":
		fn = interp.ArgFuncBad
		args = interp.BadArgs(a.NShard, a.Bad)
	case "pass":
		// A Func that returns its Result argument as is (it contributes no
		// tasks of its own), with a possibly unencodable second argument.
		fn = interp.ArgFuncPass
		r := w.getResult(st.Args[0])
		if r == nil || r.res == nil {
			w.addStep(StepResult{Path: path, Op: "runargs", ID: st.ID, Err: "skipped: argument result unavailable"})
			return
		}
		args = interp.PassArgs(r.res, a.Bad)
		a = &interp.ArgSpec{NShard: r.val.NShard}
		want = r.val.Rows[0][1].(string)
	default:
		fn = interp.ArgFunc
		args = a.Args()
		xs, m, ps := a.Xs, a.M, a.Ps
		if a.XsNil {
			xs = nil
		}
		if a.MNil {
			m = nil
		}
		if a.PsNil {
			ps = nil
		}
		want = interp.RenderArgs(a.A, a.S, xs, m, a.St, ps, args[7], args[8])
	}
	t := spec.Type{Cols: []string{"int", "p:string"}, Prefix: 1}
	r := &result{id: st.ID, spec: &spec.Spec{}}
	sr := StepResult{Path: path, Op: "runargs", ID: st.ID}
	res, err := func() (res *exec.Result, err error) {
		defer func() {
			if e := recover(); e != nil {
				err = fmt.Errorf("panic in Run: %v", e)
			}
		}()
		return w.sess.Run(ctx, fn, args...)
	}()
	sr.Err = errString(err)
	if err == nil {
		r.res = res
		var rows []spec.Row
		rows, err = func() ([]spec.Row, error) {
			sc := res.Scanner()
			defer sc.Close()
			return interp.ScanAll(ctx, t, sc)
		}()
		if err != nil {
			sr.Err = "scan: " + err.Error()
		} else if st.Variant != "bad" {
			sr.NRows = len(rows)
			if len(rows) != a.NShard*3 {
				w.violate("wrong-rows", "step %s: %d rows, want %d", path, len(rows), a.NShard*3)
			}
			for i, row := range rows {
				if row[0].(int) != i || row[1].(string) != want {
					w.violate("arguments-altered", "step %s row %d: the invoking process saw %q, the driver passed %q", path, i, row[1], want)
					break
				}
			}
		}
		// Model value so that later steps can use the result as an argument.
		var mrows []spec.Row
		for i := 0; i < a.NShard*3; i++ {
			mrows = append(mrows, spec.Row{i, want})
		}
		r.val = &spec.Val{T: t, NShard: a.NShard, Rows: mrows, Ordered: true}
		r.ref = &spec.Ref{}
	}
	r.err = err
	w.mu.Lock()
	w.results[st.ID] = r
	w.mu.Unlock()
	w.addStep(sr)
	w.checkStepExpect(path, st, err)
}

// checkNoRepeat checks that nothing was attempted twice (C16: a prompt error, no retries).
func (w *World) checkNoRepeat() {
	if !w.c.Oracle.NoRepeat || w.sys == nil {
		return
	}
	for _, e := range w.sys.Events() {
		if e.Point == "send" && (e.Method == "Worker.Run" || e.Method == "Worker.Compile") && e.Occ > 1 {
			w.violate("repeated-attempt", "%s %s was sent %d times to %s in a run without injected faults", e.Method, e.Key, e.Occ, e.Callee)
			return
		}
	}
	if len(w.c.Faults) == 0 {
		// Nor is a task handed to the executor twice (an attempt that fails
		// before anything is sent, e.g. while encoding the invocation, and is
		// then treated as a lost task and resubmitted, is a retry too).
		w.mu.Lock()
		var worst string
		for k, n := range w.uocc {
			if strings.HasPrefix(k, "y|bm.run|") && n > 1 && (worst == "" || k < worst) {
				worst = k
			}
		}
		n := w.uocc[worst]
		w.mu.Unlock()
		if worst != "" {
			w.violate("repeated-attempt", "task %s was submitted to the executor %d times in a run without injected faults", strings.TrimPrefix(worst, "y|bm.run|"), n)
		}
	}
}

func (w *World) checkStepExpect(path string, st *Step, err error) {
	if st.MustSucceed && err != nil {
		class := "unexpected-error"
		if st.Op == "scan" && strings.Contains(err.Error(), "cannot resume reading") {
			// The scan itself says why it gave up: the shard it had partly
			// delivered was lost and its recomputed output is not the one it was
			// reading. A class of its own, so that the known finding about it
			// covers nothing else.
			class = "scan-not-resumable"
		}
		w.violate(class, "step %s (%s %s) failed: %v", path, st.Op, st.ID+st.Of, err)
	}
	if st.MustFail && err == nil && len(w.c.UFaults) > 0 && w.userFaultsFired() == 0 {
		// The planned user fault never fired: the case is vacuous, not a violation.
		w.probe("vacuous-mustfail")
	} else if st.MustFail && err == nil {
		w.violate("missing-error", "step %s (%s %s) succeeded but had to fail", path, st.Op, st.ID+st.Of)
	}
	if err != nil && st.ErrContains != "" && !strings.Contains(err.Error(), st.ErrContains) {
		w.violate("error-without-message", "step %s (%s %s): error %q does not carry %q", path, st.Op, st.ID+st.Of, err, st.ErrContains)
	}
}

func (w *World) stepScan(ctx context.Context, path string, st *Step) {
	r := w.getResult(st.Of)
	sr := StepResult{Path: path, Op: "scan", ID: st.Of}
	if r == nil || r.res == nil {
		sr.Err = "skipped: result unavailable"
		w.addStep(sr)
		return
	}
	var rows []spec.Row
	var err error
	func() {
		sc := r.res.Scanner()
		defer sc.Close()
		if len(r.val.T.Cols) == 0 {
			for sc.Scan(ctx) {
				rows = append(rows, spec.Row{})
			}
			err = sc.Err()
			return
		}
		var each func(n int)
		if st.PauseAfterRows > 0 && st.PauseNs > 0 {
			each = func(n int) {
				if n == st.PauseAfterRows {
					w.probe("scan-paused")
					time.Sleep(time.Duration(st.PauseNs))
				}
			}
		}
		rows, err = interp.ScanAllPaced(ctx, r.val.T, sc, each)
	}()
	sr.Err = errString(err)
	sr.NRows = len(rows)
	canon := spec.Sequence(rows)
	sorted := append([]string(nil), canon...)
	sort.Strings(sorted)
	h := sha256.Sum256([]byte(strings.Join(sorted, "\n")))
	sr.RowsSHA = fmt.Sprintf("%x", h[:8])
	if w.c.WantRows {
		sr.Rows = canon
	}
	w.addStep(sr)
	w.checkStepExpect(path, st, err)
	if w.c.Oracle.Rows {
		if err == nil {
			if d := spec.CompareRows(r.val, rows); d != "" {
				w.violate("wrong-rows", "step %s scan of %s: %s", path, st.Of, d)
			}
		} else {
			// Rows delivered before the error must be genuine rows.
			if d := compareFailedScan(r.val, rows); d != "" {
				w.violate("wrong-rows-before-error", "step %s scan of %s (failed with %v): %s", path, st.Of, err, d)
			}
		}
	}
}

// compareFailedScan checks rows delivered before a scan error: they must be
// a prefix (ordered model) or a sub-multiset (unordered) of the model rows.
func compareFailedScan(want *spec.Val, got []spec.Row) string {
	g := spec.Sequence(got)
	if want.Ordered && !want.Weak {
		ws := spec.Sequence(want.Rows)
		for i := range g {
			if i >= len(ws) {
				return fmt.Sprintf("extra row %s", g[i])
			}
			if g[i] != ws[i] {
				return fmt.Sprintf("row %d: want %s, got %s", i, ws[i], g[i])
			}
		}
		return ""
	}
	avail := map[string]int{}
	for _, r := range want.Rows {
		avail[spec.CanonRow(r)]++
	}
	for _, r := range g {
		if avail[r] == 0 {
			return fmt.Sprintf("row %s invented or duplicated", r)
		}
		avail[r]--
	}
	return ""
}

func (w *World) record(ob interp.Obs) {
	w.mu.Lock()
	w.obs = append(w.obs, ob)
	w.mu.Unlock()
}

func (w *World) userFaultsFired() int {
	w.mu.Lock()
	defer w.mu.Unlock()
	n := 0
	for k, v := range w.ufired {
		if !strings.HasPrefix(k, "yield-") && k != "client-cancel" {
			n += v
		}
	}
	return n
}

// watcher fires f after left more simulator events (seam events, yield points,
// user-function calls): a trigger that does not depend on simulated time.
type watcher struct {
	left int
	f    func()
}

// tick counts one simulator event and fires the watchers that are due.
func (w *World) tick() {
	atomic.AddInt64(w.progress, 1)
	if atomic.LoadInt32(&w.nwatch) == 0 {
		return
	}
	var fire []func()
	w.wmu.Lock()
	for _, wa := range w.watch {
		if wa.left > 0 {
			wa.left--
			if wa.left == 0 {
				fire = append(fire, wa.f)
			}
		}
	}
	w.wmu.Unlock()
	for _, f := range fire {
		f()
	}
}

func (w *World) addWatcher(n int, f func()) *watcher {
	wa := &watcher{left: n, f: f}
	w.wmu.Lock()
	w.watch = append(w.watch, wa)
	w.wmu.Unlock()
	atomic.AddInt32(&w.nwatch, 1)
	return wa
}

// userPoint is called from user functions.
func (w *World) userPoint(ctx context.Context, site, kind, key string) error {
	if w.c.Config.Race && len(w.c.UFaults) == 0 {
		// Under the race detector every mutex and every atomic operation of the
		// harness is a happens-before edge between the task goroutines that pass
		// through here, and would order — and so hide — exactly the unsynchronised
		// accesses inside bigslice that the detector is there to find. In race
		// runs without user faults this hook therefore touches no shared state:
		// it only sleeps its (occurrence-independent) virtual delay, so that
		// tasks still overlap.
		if w.c.Config.UserDelays && kind != "nodelay" {
			if d := simnet.DelayFor(w.c.Config.DelayProfile, w.c.Config.DelaySeed, "u|"+site+"|"+key, 0); d > 0 {
				time.Sleep(d)
			}
		}
		return nil
	}
	w.tick()
	defer w.enterUser(site)()
	name := "u|" + site + "|" + key
	w.mu.Lock()
	w.uocc[name]++
	occ := w.uocc[name]
	var fire *UFault
	stack := ""
	for _, f := range w.c.UFaults {
		if f.Site != site || (f.Key != "" && f.Key != key) || f.Mode == "badpart" {
			continue
		}
		if f.Where != "" {
			if stack == "" {
				buf := make([]byte, 16<<10)
				stack = string(buf[:runtime.Stack(buf, false)])
			}
			if !strings.Contains(stack, f.Where) {
				continue
			}
		}
		cnt := w.uocc["f|"+site+"|"+f.Key+"|"+f.Mode+"|"+f.Where]
		w.uocc["f|"+site+"|"+f.Key+"|"+f.Mode+"|"+f.Where] = cnt + 1
		if cnt < f.Skip {
			continue
		}
		if f.Times > 0 && cnt-f.Skip >= f.Times {
			continue
		}
		if f.Every > 1 && (cnt-f.Skip)%f.Every != 0 {
			continue
		}
		fire = f
		w.ufired[f.Mode]++
		break
	}
	w.mu.Unlock()
	if w.c.Config.UserDelays && kind != "nodelay" {
		if d := simnet.DelayFor(w.c.Config.DelayProfile, w.c.Config.DelaySeed, name, occ); d > 0 {
			time.Sleep(d)
		}
		w.mu.Lock()
		if len(w.uevents) < 200000 {
			w.uevents = append(w.uevents, fmt.Sprintf("%d %s#%d", int64(time.Since(w.t0)), name, occ))
		}
		w.mu.Unlock()
	}
	if fire == nil {
		return nil
	}
	marker := fmt.Sprintf("INJECTED-%s@%s", fire.Mode, site)
	switch fire.Mode {
	case "error":
		return fmt.Errorf("%s", marker)
	case "temp":
		return errors.E(errors.Temporary, marker)
	case "panic":
		panic(marker)
	}
	return nil
}

// yield is called at the simhook points inside bigslice (never under a lock).
func (w *World) yield(point, key string) {
	if w.c.Config.Race && strings.HasPrefix(point, "scope.") {
		// Race runs: no harness synchronisation on per-row paths (see userPoint).
		return
	}
	w.tick()
	name := "y|" + point + "|" + key
	w.mu.Lock()
	w.uocc[name]++
	occ := w.uocc[name]
	w.mu.Unlock()
	// Planned faults at yield points (e.g. kill the machine right after a task's
	// run returned, and hold this goroutine until the loss has been noticed).
	for _, f := range w.c.Faults {
		if f.At.Point != "yield" || f.At.Method != point || (f.At.Key != "" && !strings.HasPrefix(key, f.At.Key)) {
			continue
		}
		w.mu.Lock()
		w.uocc["yf|"+point+"|"+f.At.Key+"|"+f.Do]++
		n := w.uocc["yf|"+point+"|"+f.At.Key+"|"+f.Do]
		w.mu.Unlock()
		want := f.At.Occ
		if want == 0 {
			want = 1
		}
		if n != want {
			continue
		}
		target := f.Target
		if target == "" {
			// key is "task|http://mN|procs"
			if parts := strings.Split(key, "|"); len(parts) == 3 {
				target = strings.TrimPrefix(parts[1], "http://")
			}
		}
		if f.Do == "kill" && w.sys != nil && target != "" {
			w.sys.Kill(target)
			w.mu.Lock()
			w.ufired["yield-kill"]++
			w.mu.Unlock()
		}
		if f.Arg > 0 {
			time.Sleep(time.Duration(f.Arg))
		}
	}
	// Exit points are observation points only: by then the task's outcome is
	// already published, and delaying here would stretch the observed
	// in-flight interval beyond the real one.
	if !strings.HasSuffix(point, ".done") {
		profile := w.c.Config.DelayProfile
		if strings.HasPrefix(point, "scope.") && profile != "none" {
			// The yield points inside metrics.Scope are passed once or twice per
			// counted ROW. Long delays there are not a schedule but a slow motion of
			// the whole run (65 536 rows x up to 20 s exceeded the liveness budget and
			// was reported as a hang: a false alarm, corrected here): they only get
			// sub-millisecond jitter, like keepalive traffic.
			profile = "ns"
		}
		if d := simnet.DelayFor(profile, w.c.Config.DelaySeed, name, occ); d > 0 {
			time.Sleep(d)
		}
	}
	w.mu.Lock()
	if len(w.uevents) < 200000 {
		w.uevents = append(w.uevents, fmt.Sprintf("%d %s#%d", int64(time.Since(w.t0)), name, occ))
	}
	w.mu.Unlock()
	if w.onYield != nil {
		w.onYield(point, key)
	}
}

func (w *World) userPartition(site, key string, nshard, p int) int {
	w.mu.Lock()
	defer w.mu.Unlock()
	for _, f := range w.c.UFaults {
		if f.Mode != "badpart" || f.Site != site || (f.Key != "" && f.Key != key) {
			continue
		}
		w.ufired["badpart"]++
		return nshard + 3
	}
	return p
}

// checkObservers checks the writerfunc/scan histories of failure-free runs.
func (w *World) checkObservers() {
	if !w.c.Oracle.Observers {
		return
	}
	w.mu.Lock()
	obs := append([]interp.Obs(nil), w.obs...)
	results := make([]*result, 0, len(w.results))
	for _, r := range w.results {
		results = append(results, r)
	}
	w.mu.Unlock()
	sort.Slice(results, func(i, j int) bool { return results[i].id < results[j].id })
	bySite := map[string][]interp.Obs{}
	for _, o := range obs {
		bySite[o.Site] = append(bySite[o.Site], o)
	}
	for _, r := range results {
		if r.err != nil || r.ref == nil {
			continue
		}
		// Nodes the root does not depend on are not part of the program.
		live := make([]bool, len(r.spec.Nodes))
		live[r.spec.Root()] = true
		for i := len(r.spec.Nodes) - 1; i >= 0; i-- {
			if live[i] {
				for _, j := range r.spec.Nodes[i].In {
					live[j] = true
				}
			}
		}
		for i := range r.spec.Nodes {
			n := &r.spec.Nodes[i]
			if (n.Op != "writerfunc" && n.Op != "scan") || !live[i] {
				continue
			}
			site := r.spec.Site(i)
			in := r.ref.Vals[n.In[0]]
			w.checkObserverSite(site, n.Op, in, r.ref.HeadBelow[i], r.ref.Shared[i], bySite[site])
		}
	}
}

func (w *World) checkObserverSite(site, op string, in *spec.Val, headBelow, shared bool, obs []interp.Obs) {
	// Group by shard, then by attempt (in order of arrival).
	type att struct {
		rows   []string
		eof    bool
		after  bool // a call after EOF
		errs   []string
		nCalls int
	}
	shards := map[int]map[int64]*att{}
	for _, o := range obs {
		m := shards[o.Shard]
		if m == nil {
			m = map[int64]*att{}
			shards[o.Shard] = m
		}
		a := m[o.Attempt]
		if a == nil {
			a = &att{}
			m[o.Attempt] = a
		}
		if a.eof {
			a.after = true
		}
		a.nCalls++
		a.rows = append(a.rows, o.Rows...)
		if o.EOF {
			a.eof = true
		}
		if o.Err != "" {
			a.errs = append(a.errs, o.Err)
		}
	}
	if in.Weak {
		return
	}
	var all []string
	for s := 0; s < in.NShard; s++ {
		m := shards[s]
		if len(m) == 0 {
			if !headBelow {
				w.violate("observer-missing", "%s: shard %d of %d was never observed", site, s, in.NShard)
			}
			continue
		}
		if len(m) > 1 && !shared {
			w.violate("observer-repeated", "%s: shard %d observed by %d task attempts in a failure-free run", site, s, len(m))
			continue
		}
		for _, a := range m {
			if a.after {
				w.violate("observer-after-eof", "%s: shard %d: call after end-of-stream", site, s)
			}
			if len(a.errs) > 0 {
				w.violate("observer-error", "%s: shard %d: saw error %q in a failure-free run", site, s, a.errs[0])
			}
			if !headBelow && !a.eof {
				w.violate("observer-no-eof", "%s: shard %d: never saw end-of-stream", site, s)
			}
			if !shared {
				all = append(all, a.rows...)
			}
			if in.Shards != nil {
				want := spec.Sequence(in.Shards[s])
				got := append([]string(nil), a.rows...)
				if !in.Ordered {
					want = append([]string(nil), want...)
					sort.Strings(want)
					sort.Strings(got)
				}
				if headBelow {
					if in.Ordered {
						if len(got) > len(want) {
							w.violate("observer-rows", "%s: shard %d: saw %d rows, shard has %d", site, s, len(got), len(want))
						} else {
							for i := range got {
								if got[i] != want[i] {
									w.violate("observer-rows", "%s: shard %d row %d: want %s got %s", site, s, i, want[i], got[i])
									break
								}
							}
						}
					}
					continue
				}
				if d := diffStrings(want, got); d != "" {
					w.violate("observer-rows", "%s: shard %d: %s", site, s, d)
				}
			}
		}
	}
	for s := range shards {
		if s < 0 || s >= in.NShard {
			w.violate("observer-rows", "%s: observed shard %d outside 0..%d", site, s, in.NShard-1)
		}
	}
	if !headBelow && !shared {
		want := spec.Multiset(in.Rows)
		sort.Strings(all)
		if d := diffStrings(want, all); d != "" {
			w.violate("observer-rows", "%s: all shards together: %s", site, d)
		}
	}
}

func diffStrings(w, g []string) string {
	for i := 0; i < len(w) && i < len(g); i++ {
		if w[i] != g[i] {
			return fmt.Sprintf("row %d: want %s, got %s (want %d rows, got %d)", i, w[i], g[i], len(w), len(g))
		}
	}
	if len(w) > len(g) {
		return fmt.Sprintf("missing rows: want %d, got %d; first missing %s", len(w), len(g), w[len(g)])
	}
	if len(g) > len(w) {
		return fmt.Sprintf("extra rows: want %d, got %d; first extra %s", len(w), len(g), g[len(w)])
	}
	return ""
}

// hashShuffledSite tells whether the writerfunc at site ("<tag>.n<i>.writerfunc")
// observes the output of a keyed redistribution (reshuffle, reshard, reduce,
// fold, cogroup), possibly through a key-preserving cgflat map.
func (w *World) hashShuffledSite(site string) bool {
	parts := strings.Split(site, ".")
	if len(parts) != 3 || !strings.HasPrefix(parts[1], "n") {
		return false
	}
	idx, err := strconv.Atoi(parts[1][1:])
	if err != nil {
		return false
	}
	var find func(steps []Step) *spec.Spec
	find = func(steps []Step) *spec.Spec {
		for i := range steps {
			if sp := steps[i].Spec; sp != nil && sp.Tag == parts[0] {
				return sp
			}
			for _, br := range steps[i].Par {
				if sp := find(br); sp != nil {
					return sp
				}
			}
		}
		return nil
	}
	sp := find(w.c.Script)
	if sp == nil || idx >= len(sp.Nodes) || len(sp.Nodes[idx].In) == 0 {
		return false
	}
	n := &sp.Nodes[sp.Nodes[idx].In[0]]
	if n.Op == "map" && n.Fn == "cgflat" && len(n.In) > 0 {
		n = &sp.Nodes[n.In[0]]
	}
	switch n.Op {
	case "reshuffle", "reshard", "reduce", "fold", "cogroup":
		return true
	}
	return false
}

// checkPlacement builds, per writerfunc site, the table key -> shard and checks
// that no key is seen in two shards (co-location).
func (w *World) checkPlacement() map[string]map[string]int {
	if !w.c.Oracle.Placement {
		return nil
	}
	w.mu.Lock()
	obs := append([]interp.Obs(nil), w.obs...)
	w.mu.Unlock()
	out := map[string]map[string]int{}
	colocated := map[string]bool{}
	for _, o := range obs {
		if o.Kind != "w" {
			continue
		}
		if _, ok := colocated[o.Site]; !ok {
			colocated[o.Site] = w.hashShuffledSite(o.Site)
		}
		if !colocated[o.Site] {
			// Not directly downstream of a keyed (hash) redistribution: rows of
			// one key may legitimately sit in several shards here.
			continue
		}
		t := out[o.Site]
		if t == nil {
			t = map[string]int{}
			out[o.Site] = t
		}
		for _, k := range o.Keys {
			if prev, ok := t[k]; ok && prev != o.Shard {
				w.violate("key-split", "%s: key %s observed in shard %d and in shard %d", o.Site, k, prev, o.Shard)
				continue
			}
			t[k] = o.Shard
		}
	}
	return out
}

// expectedCounters returns the expected counter totals for r including its
// (distinct) argument results, or nil entries (-1) where unspecified.
func expectedCounters(r *result, seen map[*result]bool, tot []int64) {
	if seen[r] {
		return
	}
	seen[r] = true
	for i := range r.spec.Nodes {
		k := i % interp.NumCounters
		n := &r.spec.Nodes[i]
		switch n.Op {
		case "map", "filter", "flatmap":
		default:
			continue
		}
		if n.NoCount {
			continue
		}
		c := r.ref.Calls[i]
		if c < 0 || r.ref.HeadBelow[i] || r.ref.ScanBelow[i] || r.ref.Shared[i] || r.ref.Vals[n.In[0]].Weak {
			tot[k] = -1
		}
		if tot[k] >= 0 {
			tot[k] += int64(c)
		}
	}
	for _, a := range r.args {
		expectedCounters(a, seen, tot)
	}
}

func (w *World) checkCounters(path string, r *result, got []int64) {
	tot := make([]int64, interp.NumCounters)
	expectedCounters(r, map[*result]bool{}, tot)
	for k := range tot {
		if tot[k] >= 0 && got[k] != tot[k] {
			w.violate("counter-mismatch", "step %s run %s: counter %d = %d, want %d", path, r.id, k, got[k], tot[k])
			return
		}
	}
}
