// Package world runs one simulated world (driver, workers, network, disk,
// clock) for one case inside a testing/synctest bubble and evaluates the
// oracles of the case.
package world

import (
	"verifsim/interp"
	"verifsim/simfs"
	"verifsim/simnet"
	"verifsim/spec"
)

// Config is the execution configuration of a case.
type Config struct {
	Executor         string  `json:"executor"` // local | cluster
	Procs            int     `json:"procs,omitempty"`
	Parallelism      int     `json:"parallelism,omitempty"`
	MaxLoad          float64 `json:"maxload,omitempty"`
	MachineCombiners bool    `json:"machine_combiners,omitempty"`
	// Chunk, SortCanary are applied by the orchestrator through the
	// environment (VERIF_CHUNK, VERIF_SORT_CANARY); recorded here for replay.
	Chunk          int      `json:"chunk,omitempty"`
	SortCanary     int      `json:"sort_canary,omitempty"`
	SpillBatch     int      `json:"spill_batch,omitempty"`
	ShuffleReaders bool     `json:"shuffle_readers,omitempty"`
	Keepalive      []string `json:"keepalive,omitempty"`
	Probation      string   `json:"probation,omitempty"`
	MaxMachines    int      `json:"max_machines,omitempty"`
	BootDelay      string   `json:"boot_delay,omitempty"`
	DelaySeed      uint64   `json:"delay_seed"`
	DelayProfile   string   `json:"delay_profile,omitempty"`
	UserDelays     bool     `json:"user_delays,omitempty"`
	RTSeed         uint64   `json:"rtseed"`
	Race           bool     `json:"race,omitempty"`
	// Cgo selects the binary built with cgo (DataDog zstd instead of klauspost).
	Cgo bool `json:"cgo,omitempty"`
}

// Step is one client action.
type Step struct {
	Op string `json:"op"` // run | scan | discard | kill | sleep | par | restart
	ID string `json:"id,omitempty"`
	// run
	Func      string     `json:"func,omitempty"` // prog0 | prog1 | prog2
	Exclusive bool       `json:"exclusive,omitempty"`
	Spec      *spec.Spec `json:"spec,omitempty"`
	Args      []string   `json:"args,omitempty"`
	// runargs: a Func whose rows render its arguments (C16).
	ArgSpec *interp.ArgSpec `json:"argspec,omitempty"`
	Variant string          `json:"variant,omitempty"` // args | slices | bad
	// scan | discard
	Of string `json:"of,omitempty"`
	// kill
	Machine string `json:"machine,omitempty"`
	// sleep (fake ns)
	Dur int64 `json:"dur,omitempty"`
	// scan: a slow consumer. After PauseAfterRows rows the scanning client stops
	// for PauseNs simulated nanoseconds with its Scanner open, then reads on.
	PauseAfterRows int   `json:"pause_after_rows,omitempty"`
	PauseNs        int64 `json:"pause_ns,omitempty"`
	// par: concurrent client scripts
	Par [][]Step `json:"par,omitempty"`
	// CancelAfter (run): the run's context is cancelled this many simulated
	// nanoseconds after the step starts (a client giving up); the step may then
	// fail with a cancellation error, which is not held against it.
	CancelAfter int64 `json:"cancel_after,omitempty"`
	// CancelAtEvent (run): the run's context is cancelled when this many
	// simulator events (seam events, yield points, user-function calls) have
	// happened since the step started — a trigger independent of simulated time.
	CancelAtEvent int `json:"cancel_at_event,omitempty"`
	// Expectations (filled by the generator; checked by the child).
	MustSucceed bool `json:"must_succeed,omitempty"`
	MustFail    bool `json:"must_fail,omitempty"`
	// ErrContains: if the step fails, its error must contain this text.
	ErrContains string `json:"err_contains,omitempty"`
}

// UFault is a fault in a user function.
type UFault struct {
	Site string `json:"site"`          // spec site, e.g. "a.n2.map"
	Key  string `json:"key,omitempty"` // content key ("" = any)
	// Mode: error | temp | panic | badpart
	Mode string `json:"mode"`
	// Times: fire only the first Times matching calls (0 = always).
	Times int `json:"times,omitempty"`
	// Skip: let this many matching calls pass first.
	Skip int `json:"skip,omitempty"`
	// Every: after Skip, fire only on every Every-th matching call (0, Every,
	// 2*Every, ...): with a key that a task attempt meets once, a failure that
	// comes back once per re-execution of the task and goes away on its retry.
	Every int `json:"every,omitempty"`
	// Where: the fault only matches calls whose stack contains this text
	// (e.g. the combiner call site a reduce function is invoked from).
	Where string `json:"where,omitempty"`
}

// Oracle selects which checks the child performs.
type Oracle struct {
	Rows      bool `json:"rows,omitempty"`      // scanned rows vs reference
	Observers bool `json:"observers,omitempty"` // writerfunc/scan histories
	Counters  bool `json:"counters,omitempty"`  // user metric totals
	Graph     bool `json:"graph,omitempty"`     // C08 graph checks
	Capacity  bool `json:"capacity,omitempty"`  // C14 monitor
	// SingleRunner: no task has two Executor.Run calls in flight at once (C19).
	SingleRunner bool `json:"single_runner,omitempty"`
	Placement bool `json:"placement,omitempty"`
	// CacheFiles: every published cache shard file decodes to exactly its shard's reference rows (C13).
	CacheFiles bool `json:"cache_files,omitempty"`
	// NoRepeat: no Worker.Run task and no Worker.Compile is sent twice (C16: no retries).
	NoRepeat bool `json:"no_repeat,omitempty"`
	// SiteCalls: report user-function call counts per site (and per shard for readers).
	SiteCalls bool `json:"site_calls,omitempty"` // C05: key -> shard tables of writerfunc sites
	// FaultsStop: liveness clause applies (all steps must return).
	Liveness bool `json:"liveness,omitempty"`
}

// FSPlan configures the simulated file system of a case.
type FSPlan struct {
	// Load: snapshot to load before the run (durable state of an earlier process).
	Load string `json:"load,omitempty"`
	// Dump: where to write the published files at the end (or at a crash).
	Dump   string         `json:"dump,omitempty"`
	Faults []*simfs.Fault `json:"faults,omitempty"`
	// Preload holds files to publish before the run (base64 by encoding/json).
	Preload map[string][]byte `json:"preload,omitempty"`
	// Remove lists published files to delete before the run (after Load).
	Remove []string `json:"remove,omitempty"`
}

// Case is a complete, explicit, replayable case.
type Case struct {
	Format   int             `json:"format"`
	Property string          `json:"property"`
	Seed     uint64          `json:"seed"`
	Config   Config          `json:"config"`
	Script   []Step          `json:"script"`
	Faults   []*simnet.Fault `json:"faults,omitempty"`
	UFaults  []*UFault       `json:"ufaults,omitempty"`
	FS       *FSPlan         `json:"fs,omitempty"`
	Oracle   Oracle          `json:"oracle"`
	// Meta is free-form generator metadata for orchestrator-side oracles.
	Meta map[string]any `json:"meta,omitempty"`
	// WantRows asks the child to include canonical rows in the outcome.
	WantRows bool `json:"want_rows,omitempty"`
	// WantEvents asks the child to include the seam log in the outcome.
	WantEvents bool `json:"want_events,omitempty"`
	// Expect is set in replay files.
	Expect *Expect `json:"expect,omitempty"`
}

// Expect describes the violation a replay file reproduces.
type Expect struct {
	Class  string `json:"violation_class"`
	Detail string `json:"detail,omitempty"`
}

// StepResult is what one step produced.
type StepResult struct {
	Path    string   `json:"path"` // e.g. "2" or "3.1.0" for nested par steps
	Op      string   `json:"op"`
	ID      string   `json:"id,omitempty"`
	Err     string   `json:"err,omitempty"`
	NRows   int      `json:"nrows,omitempty"`
	RowsSHA string   `json:"rows_sha,omitempty"`
	Rows    []string `json:"rows,omitempty"`
	SimNs   int64    `json:"sim_ns"`
	// Counters: user metric totals of a run's result.
	Counters []int64 `json:"counters,omitempty"`
}

// Outcome is the child's report.
type Outcome struct {
	Verdict  string         `json:"verdict"` // ok | violation | stall | infra
	Class    string         `json:"class,omitempty"`
	Detail   string         `json:"detail,omitempty"`
	Steps    []StepResult   `json:"steps,omitempty"`
	Fired    map[string]int `json:"fired,omitempty"`
	Probes   map[string]int `json:"probes,omitempty"`
	SimNs    int64          `json:"sim_ns"`
	WallMs   int64          `json:"wall_ms"`
	SeamSHA  string         `json:"seam_sha"`
	OrderSHA string         `json:"order_sha"` // seam log without timestamps
	NEvents  int            `json:"n_events"`
	Events   []string       `json:"events,omitempty"`
	// SeamEvents is the structured seam log (when WantEvents is set).
	SeamEvents []simnet.Event `json:"seam_events,omitempty"`
	GraphSHA string         `json:"graph_sha,omitempty"`
	Extra    map[string]any `json:"extra,omitempty"`
	LogTail  []string       `json:"log_tail,omitempty"`
	Stack    string         `json:"stack,omitempty"`
}
