package world

import (
	"encoding/json"
	"fmt"
	"os"
	"strings"
	"testing"

	"github.com/grailbio/bigslice"
)

func lists(alphabet []string, maxLen int) [][]string {
	out := [][]string{{}}
	frontier := [][]string{{}}
	for l := 0; l < maxLen; l++ {
		var next [][]string
		for _, p := range frontier {
			for _, a := range alphabet {
				q := append(append([]string(nil), p...), a)
				next = append(next, q)
			}
		}
		out = append(out, next...)
		frontier = next
	}
	return out
}

func diffLaw(t *testing.T) {
	outPath := os.Getenv("VERIF_OUT")
	if outPath == "" {
		t.Skip("VERIF_OUT not set")
	}
	ls := lists([]string{"a.go:1", "b.go:2", "c.go:3"}, 5)
	n, bad := 0, ""
	for _, l := range ls {
		for _, r := range ls {
			n++
			d := bigslice.FuncLocationsDiff(l, r)
			same := strings.Join(l, "\n") == strings.Join(r, "\n") && len(l) == len(r)
			if same != (d == nil) && bad == "" {
				bad = fmt.Sprintf("diff(%v,%v)=%v: nil-ness does not match equality", l, r, d)
			}
			if d == nil {
				continue
			}
			var gl, gr []string
			for _, line := range d {
				switch {
				case strings.HasPrefix(line, "+ "):
					gr = append(gr, line[2:])
				case strings.HasPrefix(line, "- "):
					gl = append(gl, line[2:])
				default:
					gl = append(gl, line)
					gr = append(gr, line)
				}
			}
			if strings.Join(gl, "\n") != strings.Join(l, "\n") || strings.Join(gr, "\n") != strings.Join(r, "\n") {
				if bad == "" {
					bad = fmt.Sprintf("diff(%v,%v)=%v does not transform one into the other (got %v / %v)", l, r, d, gl, gr)
				}
			}
		}
	}
	b, _ := json.Marshal(map[string]any{"pairs": n, "violation": bad})
	os.WriteFile(outPath, b, 0o644)
}
