package world

import (
	"fmt"
	"math"
	"runtime"
	"strconv"
	"strings"
	"sync"
	"time"

	"github.com/grailbio/bigslice/exec"
)

// capMon is the whole-system C14 monitor: it observes the driver's own
// assignment intervals through the bm.offered / bm.returned yield points.
type capMon struct {
	mu       sync.Mutex
	capacity int
	load     map[string]int            // machine -> procs assigned
	open     map[string]int            // "task|addr|procs" -> outstanding count
	invs     map[string]map[uint64]bool // machine -> invocation indices seen
	peak     int
	// local executor
	active    map[uint64]string // goroutine id -> site currently inside a user function
	exclusive map[string]bool   // site -> its task is exclusive
}

func (w *World) installCapacityMonitor() {
	cfg := w.c.Config
	ml := cfg.MaxLoad
	if ml == 0 {
		ml = exec.DefaultMaxLoad
	}
	procs := cfg.Procs
	if procs == 0 {
		procs = 2
	}
	capa := int(math.Floor(float64(procs) * ml))
	if capa < 1 {
		capa = 1
	}
	m := &capMon{capacity: capa, load: map[string]int{}, open: map[string]int{}, invs: map[string]map[uint64]bool{}, active: map[uint64]string{}, exclusive: map[string]bool{}}
	w.cap = m
	prev := w.onYield
	w.onYield = func(point, key string) {
		if prev != nil {
			prev(point, key)
		}
		if point != "bm.offered" && point != "bm.returned" {
			return
		}
		parts := strings.Split(key, "|")
		if len(parts) != 3 {
			return
		}
		procs, _ := strconv.Atoi(parts[2])
		addr := parts[1]
		m.mu.Lock()
		defer m.mu.Unlock()
		if point == "bm.offered" {
			m.load[addr] += procs
			m.open[key]++
			if m.load[addr] > m.capacity {
				w.violate("oversubscribed", "machine %s has %d procs assigned (task %s asks %d), its task capacity is floor(%d*%.2f)=%d", addr, m.load[addr], parts[0], procs, cfg.Procs, ml, m.capacity)
			}
			if procs > m.capacity || procs < 1 {
				w.violate("bad-proc-request", "task %s was assigned with %d procs on a machine of capacity %d", parts[0], procs, m.capacity)
			}
			if m.load[addr] > m.peak {
				m.peak = m.load[addr]
			}
			var inv uint64
			if strings.HasPrefix(parts[0], "inv") {
				fmt.Sscanf(parts[0], "inv%d_", &inv)
			}
			if m.invs[addr] == nil {
				m.invs[addr] = map[uint64]bool{}
			}
			m.invs[addr][inv] = true
			go w.probe("assignments_observed")
		} else {
			if m.open[key] == 0 {
				w.violate("returned-twice", "procs of %s were returned without (or more often than) being assigned", key)
				return
			}
			m.open[key]--
			m.load[addr] -= procs
		}
	}
}

func goid() uint64 {
	var buf [64]byte
	n := runtime.Stack(buf[:], false)
	// "goroutine 123 ["
	s := strings.TrimPrefix(string(buf[:n]), "goroutine ")
	if i := strings.IndexByte(s, ' '); i > 0 {
		id, _ := strconv.ParseUint(s[:i], 10, 64)
		return id
	}
	return 0
}

// enterUser/leaveUser bracket the time a task goroutine spends inside a user
// function (including its virtual delay): the local executor's concurrency.
func (w *World) enterUser(site string) func() {
	m := w.cap
	if m == nil || w.c.Config.Executor != "local" {
		return func() {}
	}
	id := goid()
	m.mu.Lock()
	if _, ok := m.active[id]; ok {
		m.mu.Unlock()
		return func() {}
	}
	m.active[id] = site
	n := len(m.active)
	p := w.c.Config.Parallelism
	if p == 0 {
		p = 1
	}
	if n > p {
		w.violate("local-parallelism-exceeded", "%d tasks are inside user functions at once, the session's parallelism is %d", n, p)
	}
	if n > 1 {
		for _, s := range m.active {
			if m.exclusive[s] {
				w.violate("exclusive-task-not-alone", "an exclusive task (site %s) runs while %d other task(s) are running", s, n-1)
				break
			}
		}
	}
	if n > m.peak {
		m.peak = n
	}
	m.mu.Unlock()
	return func() {
		m.mu.Lock()
		delete(m.active, id)
		m.mu.Unlock()
	}
}

// checkCapacityAtEnd checks conservation and the machine count once the
// session is quiescent.
func (w *World) checkCapacityAtEnd() {
	m := w.cap
	if m == nil || w.sys == nil {
		return
	}
	// Let in-flight task runs (e.g. calls to machines that died) resolve.
	time.Sleep(15 * time.Minute)
	m.mu.Lock()
	defer m.mu.Unlock()
	for key, n := range m.open {
		if n > 0 {
			w.violate("procs-not-returned", "assignment %s (task|machine|procs) was never returned to the machine manager", key)
			return
		}
	}
	all, alive := w.sys.Machines()
	p := w.c.Config.Parallelism
	if p == 0 {
		p = 1
	}
	// Exclusive Funcs get clusters of their own (one manager per exclusive invocation).
	clusters := 1 + w.nExclusiveRuns
	limit := clusters*((p+m.capacity-1)/m.capacity) + (len(all) - len(alive))
	if len(all) > limit {
		w.violate("too-many-machines", "%d machines were started (%d lost) for parallelism %d, capacity %d per machine, %d cluster(s)", len(all), len(all)-len(alive), p, m.capacity, clusters)
	}
	// Tasks of an exclusive Func never share a machine with another invocation's.
	for addr, invs := range m.invs {
		for inv := range invs {
			if w.exclusiveInvs[inv] && len(invs) > 1 {
				w.violate("exclusive-func-shared-machine", "machine %s ran tasks of the exclusive invocation %d and of %d other invocation(s)", addr, inv, len(invs)-1)
				return
			}
		}
	}
	go w.probe("capacity_end_checked")
}
