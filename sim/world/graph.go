package world

import (
	"crypto/sha256"
	"fmt"
	"sort"
	"strings"

	"github.com/grailbio/bigslice"
	"github.com/grailbio/bigslice/exec"
)

// renderTask renders the wiring of one task canonically.
func renderTask(t *exec.Task) string {
	var b strings.Builder
	fmt.Fprintf(&b, "%d/%s np=%d ck=%q comb=%v procs=%d excl=%v deps=[", t.Name.InvIndex, t.Name, t.NumPartition, t.CombineKey, !t.Combiner.IsNil(), t.Pragma.Procs(), t.Pragma.Exclusive())
	for _, d := range t.Deps {
		fmt.Fprintf(&b, "(%d/%s p=%d x=%v ck=%q n=%d)", d.Head.Name.InvIndex, d.Head.Name, d.Partition, d.Expand, d.CombineKey, d.NumTask())
	}
	b.WriteString("] group=[")
	for _, g := range t.Group {
		fmt.Fprintf(&b, "%d/%s,", g.Name.InvIndex, g.Name)
	}
	b.WriteString("]")
	return b.String()
}

// closure returns all tasks reachable from roots, by name; dup reports two
// distinct tasks that share a name.
func closure(roots []*exec.Task) (named map[exec.TaskName]*exec.Task, dup string) {
	named = map[exec.TaskName]*exec.Task{}
	var visit func(t *exec.Task)
	seen := map[*exec.Task]bool{}
	visit = func(t *exec.Task) {
		if seen[t] {
			return
		}
		seen[t] = true
		if prev, ok := named[t.Name]; ok && prev != t && dup == "" {
			dup = fmt.Sprintf("%d/%s", t.Name.InvIndex, t.Name)
		}
		named[t.Name] = t
		for _, d := range t.Deps {
			for i := 0; i < d.NumTask(); i++ {
				visit(d.Task(i))
			}
		}
		for _, g := range t.Group {
			visit(g)
		}
	}
	for _, r := range roots {
		visit(r)
	}
	return
}

func renderGraph(named map[exec.TaskName]*exec.Task) []string {
	var lines []string
	for _, t := range named {
		lines = append(lines, renderTask(t))
	}
	sort.Strings(lines)
	return lines
}

func diffLines(a, b []string) string {
	for i := 0; i < len(a) && i < len(b); i++ {
		if a[i] != b[i] {
			return fmt.Sprintf("%q vs %q", a[i], b[i])
		}
	}
	if len(a) != len(b) {
		return fmt.Sprintf("%d tasks vs %d tasks", len(a), len(b))
	}
	return ""
}

// wellFormed checks the driver graph of one result against the property's
// statement of well-formedness.
func wellFormed(res *exec.Result, roots []*exec.Task) string {
	named, dup := closure(roots)
	if dup != "" {
		return "two distinct tasks are named " + dup
	}
	if len(roots) != res.NumShard() {
		return fmt.Sprintf("%d root tasks for a result of %d shards", len(roots), res.NumShard())
	}
	// Acyclic.
	state := map[*exec.Task]int{}
	var cyc string
	var dfs func(t *exec.Task)
	dfs = func(t *exec.Task) {
		switch state[t] {
		case 1:
			if cyc == "" {
				cyc = t.Name.String()
			}
			return
		case 2:
			return
		}
		state[t] = 1
		for _, d := range t.Deps {
			for i := 0; i < d.NumTask(); i++ {
				dfs(d.Task(i))
			}
		}
		state[t] = 2
	}
	for _, r := range roots {
		dfs(r)
	}
	if cyc != "" {
		return "dependency cycle through " + cyc
	}
	// One task per shard of each stage.
	type stage struct {
		inv uint64
		op  string
	}
	stages := map[stage]map[int]int{}
	nshard := map[stage]int{}
	for n := range named {
		if n.IsCombiner() {
			continue
		}
		s := stage{n.InvIndex, n.Op}
		if stages[s] == nil {
			stages[s] = map[int]int{}
		}
		stages[s][n.Shard]++
		if prev, ok := nshard[s]; ok && prev != n.NumShard {
			return fmt.Sprintf("stage %s has tasks with shard counts %d and %d", n.Op, prev, n.NumShard)
		}
		nshard[s] = n.NumShard
	}
	for s, m := range stages {
		for sh := 0; sh < nshard[s]; sh++ {
			if m[sh] != 1 {
				return fmt.Sprintf("stage %s: shard %d of %d compiled %d times", s.op, sh, nshard[s], m[sh])
			}
		}
		if len(m) != nshard[s] {
			return fmt.Sprintf("stage %s: %d tasks for %d shards", s.op, len(m), nshard[s])
		}
	}
	for i, r := range roots {
		if r.Name.Shard != i || r.Name.NumShard != len(roots) {
			return fmt.Sprintf("root %d is %s", i, r.Name)
		}
	}
	// Shuffle wiring and pipelining.
	for _, t := range named {
		for _, d := range t.Deps {
			if len(d.Head.Group) > 0 {
				// Shuffle dependency: consumer shard p reads partition p of every producer shard.
				if d.Partition != t.Name.Shard {
					return fmt.Sprintf("task %s reads partition %d of %s", t.Name, d.Partition, d.Head.Name)
				}
				if d.Head.Group[0] != d.Head {
					return fmt.Sprintf("dependency head %s is not the head of its group", d.Head.Name)
				}
				if len(d.Head.Group) != d.Head.Name.NumShard {
					return fmt.Sprintf("group of %s has %d tasks for %d shards", d.Head.Name, len(d.Head.Group), d.Head.Name.NumShard)
				}
				for gi, g := range d.Head.Group {
					if g.Name.Shard != gi || g.Name.Op != d.Head.Name.Op {
						return fmt.Sprintf("group of %s: member %d is %s", d.Head.Name, gi, g.Name)
					}
					if g.NumPartition != t.Name.NumShard {
						return fmt.Sprintf("producer %s has %d partitions for a consumer (%s) of %d shards", g.Name, g.NumPartition, t.Name, t.Name.NumShard)
					}
					if g.NumPartition > 1 && g.Partitioner == nil {
						return fmt.Sprintf("producer %s has %d partitions but no partitioner", g.Name, g.NumPartition)
					}
				}
			} else {
				if d.Partition != 0 {
					return fmt.Sprintf("task %s reads partition %d of unshuffled %s", t.Name, d.Partition, d.Head.Name)
				}
				if d.Head.Name.NumShard != t.Name.NumShard || d.Head.Name.Shard != t.Name.Shard {
					return fmt.Sprintf("task %s depends, without shuffle, on %s", t.Name, d.Head.Name)
				}
			}
		}
		// A dependency is wired as a shuffle exactly when the slice graph says so.
		if len(t.Slices) > 0 {
			b := t.Slices[len(t.Slices)-1]
			if _, isResult := bigslice.Unwrap(b).(*exec.Result); !isResult && len(t.Deps) == b.NumDep() {
				for k, d := range t.Deps {
					if _, reused := bigslice.Unwrap(b.Dep(k).Slice).(*exec.Result); reused || d.Head.Name.InvIndex != t.Name.InvIndex {
						// Reused results are re-shuffled by tasks of their own.
						continue
					}
					if want, got := b.Dep(k).Shuffle, len(d.Head.Group) > 0; want != got {
						return fmt.Sprintf("task %s: dependency %d of %s is shuffle=%v in the slice graph but wired shuffle=%v (on %s)", t.Name, k, b.Name(), want, got, d.Head.Name)
					}
				}
			}
		}
		// Pipelining never crosses a shuffle, a Materialize pragma or a result.
		for i := 0; i+1 < len(t.Slices); i++ {
			s := t.Slices[i]
			if s.NumDep() != 1 {
				return fmt.Sprintf("task %s pipelines through %s which has %d dependencies", t.Name, s.Name(), s.NumDep())
			}
			dep := s.Dep(0)
			if dep.Shuffle {
				return fmt.Sprintf("task %s pipelines across the shuffle below %s", t.Name, s.Name())
			}
			if p, ok := dep.Slice.(bigslice.Pragma); ok && p.Materialize() {
				return fmt.Sprintf("task %s pipelines across the Materialize pragma of %s", t.Name, dep.Slice.Name())
			}
			if _, ok := bigslice.Unwrap(dep.Slice).(*exec.Result); ok {
				return fmt.Sprintf("task %s pipelines into a reused result", t.Name)
			}
			if dep.Slice != t.Slices[i+1] {
				return fmt.Sprintf("task %s: pipelined slices are not a dependency chain at %d", t.Name, i)
			}
		}
	}
	return ""
}

// checkGraphs implements the C08 oracles for all successful results.
func (w *World) checkGraphs() string {
	if !w.c.Oracle.Graph {
		return ""
	}
	w.mu.Lock()
	results := make([]*result, 0, len(w.results))
	for _, r := range w.results {
		if r.res != nil {
			results = append(results, r)
		}
	}
	w.mu.Unlock()
	sort.Slice(results, func(i, j int) bool { return results[i].id < results[j].id })
	mc := exec.VerifMachineCombiners(w.sess)
	byIndex := map[uint64]*exec.Result{}
	for _, r := range results {
		byIndex[exec.VerifResultIndex(r.res)] = r.res
	}
	resolve := func(i uint64) *exec.Result { return byIndex[i] }
	var all []string
	byInv := map[uint64][]string{}
	for _, r := range results {
		roots := exec.VerifResultTasks(r.res)
		if len(roots) == 0 {
			continue
		}
		if msg := wellFormed(r.res, roots); msg != "" {
			w.violate("graph-malformed", "result %s: %s", r.id, msg)
		}
		named, _ := closure(roots)
		lines := renderGraph(named)
		inv := roots[0].Name.InvIndex
		byInv[inv] = lines
		all = append(all, fmt.Sprintf("== %s", r.id))
		// Strip invocation-independent? Keep as is: invocation indices are
		// deterministic within a script.
		all = append(all, lines...)
		// Recompile on the driver, plain and after a gob round trip.
		for _, trip := range []bool{false, true} {
			again, err := exec.VerifRecompile(roots[0], mc, trip, resolve)
			if err != nil {
				w.violate("graph-recompile-error", "result %s (gob trip %v): %v", r.id, trip, err)
				continue
			}
			n2, _ := closure(again)
			if d := diffLines(lines, renderGraph(n2)); d != "" {
				w.violate("graph-differs-on-recompile", "result %s (gob trip %v): %s", r.id, trip, d)
			}
		}
	}
	// Worker graphs.
	nw := 0
	for wi, tables := range exec.VerifWorkerGraphs() {
		for inv, named := range tables {
			want, ok := byInv[inv]
			if !ok {
				continue // an invocation whose Run failed on the driver
			}
			nw++
			// The worker's table is the closure of its root tasks.
			got := renderGraph(named)
			if d := diffLines(want, got); d != "" {
				w.violate("graph-differs-on-worker", "worker #%d, invocation %d: driver vs worker: %s", wi, inv, d)
			}
		}
	}
	w.mu.Lock()
	w.probes["worker_graphs_compared"] += nw
	w.mu.Unlock()
	h := sha256.Sum256([]byte(strings.Join(all, "\n")))
	return fmt.Sprintf("%x", h[:8])
}
