package world

import (
	"bytes"
	"context"
	"fmt"
	"io"
	"sort"
	"strings"

	"github.com/grailbio/base/compress/zstd"
	"github.com/grailbio/bigslice/sliceio"

	"verifsim/interp"
	"verifsim/spec"
)

// siteCalls returns user-function call counts: per site, and per site and
// shard for batch functions whose key names the shard ("s<shard>@<pos>").
func (w *World) siteCalls() map[string]int {
	w.mu.Lock()
	defer w.mu.Unlock()
	out := map[string]int{}
	for name, n := range w.uocc {
		if !strings.HasPrefix(name, "u|") {
			continue
		}
		parts := strings.SplitN(name[2:], "|", 2)
		site := parts[0]
		out[site] += n
		if len(parts) == 2 && strings.HasPrefix(parts[1], "s") {
			if at := strings.IndexByte(parts[1], '@'); at > 0 {
				out[site+"#"+parts[1][:at]] += n
			}
		}
	}
	return out
}

func walkRuns(steps []Step, f func(st *Step)) {
	for i := range steps {
		if steps[i].Op == "run" && steps[i].Spec != nil {
			f(&steps[i])
		}
		for _, p := range steps[i].Par {
			walkRuns(p, f)
		}
	}
}

// checkCacheFiles checks the file-level invariant of C13: every published
// shard file of every cache operator in the script decodes, with the real
// decoder, to exactly the reference rows of its shard.
func (w *World) checkCacheFiles(when string) {
	if !w.c.Oracle.CacheFiles {
		return
	}
	files := w.fsys.Files()
	seen := map[string]bool{}
	walkRuns(w.c.Script, func(st *Step) {
		if len(st.Args) > 0 {
			return
		}
		ref, err := spec.Eval(st.Spec, nil)
		if err != nil {
			return
		}
		for i := range st.Spec.Nodes {
			n := &st.Spec.Nodes[i]
			if (n.Op != "cache" && n.Op != "cachepartial") || seen[n.Cache] {
				continue
			}
			seen[n.Cache] = true
			in := ref.Vals[n.In[0]]
			if in.Weak {
				continue
			}
			var names []string
			for p := range files {
				if strings.HasPrefix(p, n.Cache+"-") {
					names = append(names, p)
				}
			}
			sort.Strings(names)
			var all []string
			present := 0
			for _, p := range names {
				var shard, of int
				if _, err := fmt.Sscanf(p[len(n.Cache):], "-%04d-of-%04d", &shard, &of); err != nil {
					continue
				}
				if of != in.NShard {
					continue // a file of another sharding of this prefix
				}
				present++
				rows, err := decodeCacheFile(in.T, files[p])
				w.probe("cache_files_checked")
				if err != nil {
					w.violate("cache-file-invalid", "%s: %s does not decode: %v (%d rows before the error)", when, p, err, len(rows))
					continue
				}
				got := spec.Sequence(rows)
				all = append(all, got...)
				if in.Shards != nil && shard < len(in.Shards) {
					want := spec.Sequence(in.Shards[shard])
					g := append([]string(nil), got...)
					if !in.Ordered {
						want = append([]string(nil), want...)
						sort.Strings(want)
						sort.Strings(g)
					}
					if d := diffStrings(want, g); d != "" {
						w.violate("cache-file-wrong-rows", "%s: %s: %s", when, p, d)
					}
				}
			}
			if present == in.NShard && in.Shards == nil {
				want := spec.Multiset(in.Rows)
				sort.Strings(all)
				if d := diffStrings(want, all); d != "" {
					w.violate("cache-file-wrong-rows", "%s: all %d shard files of %s together: %s", when, present, n.Cache, d)
				}
			} else if in.Shards == nil {
				// Sub-multiset at least.
				avail := map[string]int{}
				for _, r := range in.Rows {
					avail[spec.CanonRow(r)]++
				}
				for _, r := range all {
					if avail[r] == 0 {
						w.violate("cache-file-wrong-rows", "%s: files of %s hold row %s that the slice does not have (or hold it too often)", when, n.Cache, r)
						break
					}
					avail[r]--
				}
			}
		}
	})
}

func decodeCacheFile(t spec.Type, data []byte) ([]spec.Row, error) {
	zr, err := zstd.NewReader(bytes.NewReader(data))
	if err != nil {
		return nil, err
	}
	defer zr.Close()
	r := sliceio.NewDecodingReader(zr)
	sc := sliceio.NewScanner(interp.SliceType(t), sliceio.ReaderWithCloseFunc{Reader: r, CloseFunc: func() error { return nil }})
	rows, err := interp.ScanAll(context.Background(), t, sc)
	if err == io.EOF {
		err = nil
	}
	return rows, err
}
