// Package simfs is an in-memory file system registered with
// github.com/grailbio/base/file under the scheme "simfs". It has the commit
// semantics of the real implementations (a file being written is invisible
// until Close succeeds; Discard drops it), every operation is a seam point
// where a planned fault may return an error, write short, or stop the world
// (crash), and its durable state (the published files) can be dumped to and
// loaded from a snapshot so that a "restart" is a new OS process.
package simfs

import (
	"bytes"
	"context"
	"encoding/json"
	"fmt"
	"io"
	"os"
	"sort"
	"strings"
	"sync"
	"time"

	"github.com/grailbio/base/errors"
	"github.com/grailbio/base/file"
)

// Fault is a planned file-system fault.
type Fault struct {
	Op      string `json:"op"`             // create | write | close | open | stat | read | seek | remove | list
	PathSub string `json:"path,omitempty"` // substring of the path ("" = any)
	Occ     int    `json:"occ,omitempty"`  // fire at the Occ-th matching op (1-based; 0 = first)
	Do      string `json:"do"`             // error | short | crash
	// Sticky faults fire on every matching op from Occ on.
	Sticky bool `json:"sticky,omitempty"`

	seen  int
	fired bool
}

// Op is a logged operation.
type Op struct {
	Op       string `json:"op"`
	Path     string `json:"path"`
	N        int    `json:"n,omitempty"`
	Decision string `json:"decision"`
}

// FS is the simulated file system.
type FS struct {
	mu     sync.Mutex
	files  map[string][]byte
	faults []*Fault
	ops    []Op
	fired  map[string]int
	// OnCrash is called (with the lock released) when a crash fault fires; it must not return.
	OnCrash func()
	// OnOp is called for each operation (without the lock).
	OnOp func(Op)
}

var (
	global   = &FS{files: map[string][]byte{}, fired: map[string]int{}}
	register sync.Once
)

// Global returns the process-wide FS and makes sure it is registered.
func Global() *FS {
	register.Do(func() {
		file.RegisterImplementation("simfs", func() file.Implementation { return &impl{fs: global} })
	})
	return global
}

// SetFaults installs the fault plan.
func (fs *FS) SetFaults(f []*Fault) {
	fs.mu.Lock()
	fs.faults = f
	fs.mu.Unlock()
}

// Ops returns the operation log.
func (fs *FS) Ops() []Op {
	fs.mu.Lock()
	defer fs.mu.Unlock()
	return append([]Op(nil), fs.ops...)
}

// ResetLog clears the operation log (not the files).
func (fs *FS) ResetLog() {
	fs.mu.Lock()
	fs.ops = nil
	fs.mu.Unlock()
}

// Fired returns fault counts by kind.
func (fs *FS) Fired() map[string]int {
	fs.mu.Lock()
	defer fs.mu.Unlock()
	out := map[string]int{}
	for k, v := range fs.fired {
		out[k] = v
	}
	return out
}

// Files returns the published files (path -> contents).
func (fs *FS) Files() map[string][]byte {
	fs.mu.Lock()
	defer fs.mu.Unlock()
	out := map[string][]byte{}
	for k, v := range fs.files {
		out[k] = append([]byte(nil), v...)
	}
	return out
}

// Put publishes a file directly (test setup).
func (fs *FS) Put(path string, data []byte) {
	fs.mu.Lock()
	fs.files[path] = append([]byte(nil), data...)
	fs.mu.Unlock()
}

// Delete removes a file directly (test setup).
func (fs *FS) Delete(path string) {
	fs.mu.Lock()
	delete(fs.files, path)
	fs.mu.Unlock()
}

// Dump writes the published files to a snapshot file.
func (fs *FS) Dump(path string) error {
	b, err := json.Marshal(fs.Files())
	if err != nil {
		return err
	}
	return os.WriteFile(path, b, 0o644)
}

// Load replaces the published files by a snapshot.
func (fs *FS) Load(path string) error {
	b, err := os.ReadFile(path)
	if err != nil {
		return err
	}
	var m map[string][]byte
	if err := json.Unmarshal(b, &m); err != nil {
		return err
	}
	fs.mu.Lock()
	fs.files = m
	if fs.files == nil {
		fs.files = map[string][]byte{}
	}
	fs.mu.Unlock()
	return nil
}

// op registers an operation and returns the fault decision ("" = pass).
func (fs *FS) op(op, path string, n int) string {
	fs.mu.Lock()
	decision := ""
	for _, f := range fs.faults {
		if f.Op != op || (f.PathSub != "" && !strings.Contains(path, f.PathSub)) {
			continue
		}
		f.seen++
		want := f.Occ
		if want == 0 {
			want = 1
		}
		if f.seen == want || (f.Sticky && f.seen > want) {
			f.fired = true
			decision = f.Do
			fs.fired["fs-"+f.Do]++
			break
		}
	}
	d := decision
	if d == "" {
		d = "pass"
	}
	o := Op{Op: op, Path: path, N: n, Decision: d}
	fs.ops = append(fs.ops, o)
	cb, crash := fs.OnOp, fs.OnCrash
	fs.mu.Unlock()
	if cb != nil {
		cb(o)
	}
	if decision == "crash" && crash != nil {
		crash()
		select {} // not reached
	}
	return decision
}

func injected(op, path string) error {
	return errors.E(errors.Unavailable, fmt.Sprintf("simfs: injected %s failure on %s", op, path))
}

type impl struct{ fs *FS }

func (i *impl) String() string { return "simfs" }

func (i *impl) Open(ctx context.Context, path string, opts ...file.Opts) (file.File, error) {
	if d := i.fs.op("open", path, 0); d != "" {
		return nil, injected("open", path)
	}
	i.fs.mu.Lock()
	data, ok := i.fs.files[path]
	i.fs.mu.Unlock()
	if !ok {
		return nil, errors.E(errors.NotExist, fmt.Sprintf("simfs: open %s: no such file", path))
	}
	return &handle{fs: i.fs, path: path, rd: &reader{fs: i.fs, path: path, r: bytes.NewReader(data)}, size: int64(len(data))}, nil
}

func (i *impl) Create(ctx context.Context, path string, opts ...file.Opts) (file.File, error) {
	if d := i.fs.op("create", path, 0); d != "" {
		return nil, injected("create", path)
	}
	return &handle{fs: i.fs, path: path, writing: true}, nil
}

func (i *impl) Stat(ctx context.Context, path string, opts ...file.Opts) (file.Info, error) {
	if d := i.fs.op("stat", path, 0); d != "" {
		return nil, injected("stat", path)
	}
	i.fs.mu.Lock()
	data, ok := i.fs.files[path]
	i.fs.mu.Unlock()
	if !ok {
		return nil, errors.E(errors.NotExist, fmt.Sprintf("simfs: stat %s: no such file", path))
	}
	return info{int64(len(data))}, nil
}

func (i *impl) Remove(ctx context.Context, path string) error {
	if d := i.fs.op("remove", path, 0); d != "" {
		return injected("remove", path)
	}
	i.fs.mu.Lock()
	_, ok := i.fs.files[path]
	delete(i.fs.files, path)
	i.fs.mu.Unlock()
	if !ok {
		return errors.E(errors.NotExist, fmt.Sprintf("simfs: remove %s: no such file", path))
	}
	return nil
}

func (i *impl) Presign(ctx context.Context, path, method string, expiry time.Duration) (string, error) {
	return "", errors.E(errors.NotSupported, "simfs: presign")
}

func (i *impl) List(ctx context.Context, path string, recursive bool) file.Lister {
	i.fs.op("list", path, 0)
	i.fs.mu.Lock()
	var paths []string
	for p := range i.fs.files {
		if strings.HasPrefix(p, path) {
			paths = append(paths, p)
		}
	}
	sizes := map[string]int64{}
	for _, p := range paths {
		sizes[p] = int64(len(i.fs.files[p]))
	}
	i.fs.mu.Unlock()
	sort.Strings(paths)
	return &lister{paths: paths, sizes: sizes, i: -1}
}

type lister struct {
	paths []string
	sizes map[string]int64
	i     int
}

func (l *lister) Scan() bool      { l.i++; return l.i < len(l.paths) }
func (l *lister) Err() error      { return nil }
func (l *lister) Path() string    { return l.paths[l.i] }
func (l *lister) IsDir() bool     { return false }
func (l *lister) Info() file.Info { return info{l.sizes[l.paths[l.i]]} }

type info struct{ size int64 }

func (i info) Size() int64        { return i.size }
func (i info) ModTime() time.Time { return time.Time{} }

type handle struct {
	fs      *FS
	path    string
	writing bool
	mu      sync.Mutex
	buf     bytes.Buffer
	rd      *reader
	size    int64
	closed  bool
}

func (h *handle) String() string { return "simfs:" + h.path }
func (h *handle) Name() string   { return h.path }

func (h *handle) Stat(ctx context.Context) (file.Info, error) {
	if d := h.fs.op("stat", h.path, 0); d != "" {
		return nil, injected("stat", h.path)
	}
	if h.writing {
		h.mu.Lock()
		defer h.mu.Unlock()
		return info{int64(h.buf.Len())}, nil
	}
	return info{h.size}, nil
}

func (h *handle) Reader(ctx context.Context) io.ReadSeeker {
	if h.rd == nil {
		return file.NewError(fmt.Errorf("simfs: %s is not open for reading", h.path))
	}
	return h.rd
}

func (h *handle) Writer(ctx context.Context) io.Writer {
	if !h.writing {
		return file.NewError(fmt.Errorf("simfs: %s is not open for writing", h.path))
	}
	return (*writer)(h)
}

func (h *handle) Discard(ctx context.Context) {
	h.fs.op("discard", h.path, 0)
	h.mu.Lock()
	h.closed = true
	h.buf.Reset()
	h.mu.Unlock()
}

func (h *handle) Close(ctx context.Context) error {
	if !h.writing {
		return nil
	}
	d := h.fs.op("close", h.path, 0)
	h.mu.Lock()
	defer h.mu.Unlock()
	if h.closed {
		return fmt.Errorf("simfs: %s: already closed", h.path)
	}
	h.closed = true
	if d != "" {
		// A failed close publishes nothing.
		return injected("close", h.path)
	}
	h.fs.mu.Lock()
	h.fs.files[h.path] = append([]byte(nil), h.buf.Bytes()...)
	h.fs.mu.Unlock()
	return nil
}

type writer handle

func (w *writer) Write(p []byte) (int, error) {
	h := (*handle)(w)
	d := h.fs.op("write", h.path, len(p))
	h.mu.Lock()
	defer h.mu.Unlock()
	if h.closed {
		return 0, fmt.Errorf("simfs: %s: write after close", h.path)
	}
	switch d {
	case "error":
		return 0, injected("write", h.path)
	case "short":
		n := len(p) / 2
		h.buf.Write(p[:n])
		return n, injected("write", h.path)
	}
	return h.buf.Write(p)
}

type reader struct {
	fs   *FS
	path string
	r    *bytes.Reader
}

func (r *reader) Read(p []byte) (int, error) {
	if d := r.fs.op("read", r.path, len(p)); d != "" {
		return 0, injected("read", r.path)
	}
	return r.r.Read(p)
}

func (r *reader) Seek(off int64, whence int) (int64, error) {
	if d := r.fs.op("seek", r.path, int(off)); d != "" {
		return 0, injected("seek", r.path)
	}
	return r.r.Seek(off, whence)
}
