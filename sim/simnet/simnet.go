// Package simnet is a socket-free bigmachine.System for deterministic
// simulation: machines are in-process rpc servers, the transport is an
// http.RoundTripper that calls the callee's ServeMux directly, and every RPC
// passes named seam points where a fault plan may act and where a
// content-named virtual delay is slept on the (fake) clock.
package simnet

import (
	"bytes"
	"context"
	"encoding/gob"
	"fmt"
	"hash/fnv"
	"io"
	"net/http"
	"strings"
	"sync"
	"time"

	"github.com/grailbio/base/errors"
	"github.com/grailbio/bigmachine"
	"github.com/grailbio/bigmachine/rpc"
)

// Match selects seam events. Empty fields are wildcards.
type Match struct {
	Point  string `json:"point,omitempty"` // send | reply | chunk | time
	Method string `json:"method,omitempty"`
	Callee string `json:"callee,omitempty"`
	Key    string `json:"key,omitempty"`
	// Occ: fire at the Occ-th matching event (1-based; 0 means 1).
	Occ int `json:"occ,omitempty"`
	// TimeNs: for point "time", fake nanoseconds since start.
	TimeNs int64 `json:"time_ns,omitempty"`
}

// Fault is one planned fault.
type Fault struct {
	At Match `json:"at"`
	// Do: kill | drop | cut | flip | delay | stall | refuse-start | allow-start
	Do     string `json:"do"`
	Target string `json:"target,omitempty"` // machine to kill/stall (default: callee)
	Arg    int64  `json:"arg,omitempty"`    // byte offset (cut/flip), duration ns (delay/stall)

	seen  int
	fired bool
}

// Event is a logged seam event.
type Event struct {
	T        int64  `json:"t"`
	Point    string `json:"point"`
	Method   string `json:"method"`
	Callee   string `json:"callee"`
	Key      string `json:"key"`
	Occ      int    `json:"occ"`
	Decision string `json:"decision"`
	// Len is the number of body bytes offered at a chunk event.
	Len int `json:"len,omitempty"`
	// Bounds lists the absolute body offsets at which a gob message starts
	// within this chunk (Worker.Read bodies only): every batch boundary of the
	// row stream is among them.
	Bounds []int64 `json:"bounds,omitempty"`
}

func (e Event) String() string {
	return fmt.Sprintf("%d %s %s %s %s#%d %s", e.T, e.Point, e.Method, e.Callee, e.Key, e.Occ, e.Decision)
}

// Config configures a System.
type Config struct {
	Procs          int
	Keepalive      [3]time.Duration // period, timeout, rpc timeout
	DelaySeed      uint64
	DelayProfile   string // none | ns | mixed | wide
	MaxMachines    int    // total machines that may ever be started (0: unlimited)
	BootDelay      time.Duration
	Faults         []*Fault
	LogSupervisor  bool // include keepalive traffic in the seam log
	NoDelayMethods map[string]bool
}

type machine struct {
	*bigmachine.Machine
	name     string
	cancel   func()
	mux      *http.ServeMux
	dead     bool
	stallTil time.Time
	inflight map[*call]struct{}
}

type call struct {
	cancel func()
	fail   func(error)
}

// System implements bigmachine.System.
type System struct {
	cfg Config
	b   *bigmachine.B

	mu      sync.Mutex
	ms      map[string]*machine
	n       int
	started int
	t0      time.Time
	occ     map[string]int
	events  []Event
	fired   map[string]int
	refuse  bool
	seq     int
	// OnEvent, if set, is called (without the lock) for each logged event.
	OnEvent func(Event)
}

// New returns a new System. It must be created inside the synctest bubble.
func New(cfg Config) *System {
	if cfg.Procs == 0 {
		cfg.Procs = 2
	}
	if cfg.Keepalive[0] == 0 {
		cfg.Keepalive = [3]time.Duration{time.Minute, 2 * time.Minute, 10 * time.Second}
	}
	s := &System{cfg: cfg, ms: map[string]*machine{}, occ: map[string]int{}, fired: map[string]int{}, t0: time.Now()}
	for _, f := range cfg.Faults {
		if f.At.Point == "time" {
			f := f
			go func() {
				time.Sleep(time.Duration(f.At.TimeNs))
				s.mu.Lock()
				f.fired = true
				s.mu.Unlock()
				s.apply(f, "", nil)
				s.logEvent(Event{Point: "time", Decision: f.Do + "(" + f.Target + ")"})
			}()
		}
	}
	return s
}

func (s *System) Name() string                              { return "testsystem" }
func (s *System) Init(b *bigmachine.B) error                { s.b = b; return nil }
func (s *System) Main() error                               { panic("simnet: Main called") }
func (s *System) Event(string, ...interface{})              {}
func (s *System) Exit(int)                                  {}
func (s *System) Shutdown()                                 {}
func (s *System) Maxprocs() int                             { return s.cfg.Procs }
func (s *System) ListenAndServe(string, http.Handler) error { panic("simnet: ListenAndServe called") }
func (s *System) KeepaliveConfig() (period, timeout, rpcTimeout time.Duration) {
	return s.cfg.Keepalive[0], s.cfg.Keepalive[1], s.cfg.Keepalive[2]
}
func (s *System) Tail(ctx context.Context, m *bigmachine.Machine) (io.Reader, error) {
	return nil, errors.E(errors.NotSupported)
}
func (s *System) Read(ctx context.Context, m *bigmachine.Machine, filename string) (io.Reader, error) {
	return nil, errors.E(errors.NotSupported)
}
func (s *System) HTTPClient() *http.Client { return &http.Client{Transport: s} }

// Start implements bigmachine.System.
func (s *System) Start(ctx context.Context, count int) ([]*bigmachine.Machine, error) {
	if s.cfg.BootDelay > 0 {
		time.Sleep(s.cfg.BootDelay)
	}
	// A failed start costs simulated time (as a failed boot does in reality);
	// never sleep with the mutex held.
	s.mu.Lock()
	fail := ""
	if s.refuse {
		s.fired["start-refused"]++
		fail = "simnet: machine start refused by plan"
	} else if s.cfg.MaxMachines > 0 && s.started+count > s.cfg.MaxMachines {
		count = s.cfg.MaxMachines - s.started
		if count <= 0 {
			s.fired["start-exhausted"]++
			fail = "simnet: no more machines available"
		}
	}
	if fail != "" {
		s.mu.Unlock()
		time.Sleep(30 * time.Second)
		return nil, fmt.Errorf("%s", fail)
	}
	defer s.mu.Unlock()
	out := make([]*bigmachine.Machine, count)
	for i := range out {
		mctx, cancel := context.WithCancel(context.Background())
		server := rpc.NewServer()
		if err := server.Register("Supervisor", bigmachine.StartSupervisor(mctx, s.b, s, server)); err != nil {
			cancel()
			return nil, err
		}
		mux := http.NewServeMux()
		mux.Handle(bigmachine.RpcPrefix, server)
		s.n++
		s.started++
		name := fmt.Sprintf("m%d", s.n)
		m := &bigmachine.Machine{Addr: "http://" + name, Maxprocs: s.cfg.Procs, NoExec: true}
		s.ms[name] = &machine{Machine: m, name: name, cancel: cancel, mux: mux, inflight: map[*call]struct{}{}}
		out[i] = m
	}
	return out, nil
}

// Machines returns the names of all machines ever started, and which are alive.
func (s *System) Machines() (all []string, alive []string) {
	s.mu.Lock()
	defer s.mu.Unlock()
	for i := 1; i <= s.n; i++ {
		name := fmt.Sprintf("m%d", i)
		all = append(all, name)
		if !s.ms[name].dead {
			alive = append(alive, name)
		}
	}
	return
}

// Kill makes a machine unreachable from now on.
func (s *System) Kill(name string) {
	s.mu.Lock()
	m := s.ms[name]
	if m == nil || m.dead {
		s.mu.Unlock()
		return
	}
	m.dead = true
	s.fired["kill"]++
	var calls []*call
	for c := range m.inflight {
		calls = append(calls, c)
	}
	m.inflight = map[*call]struct{}{}
	s.mu.Unlock()
	m.cancel()
	for _, c := range calls {
		c.fail(fmt.Errorf("read tcp %s: connection reset by peer", name))
		c.cancel()
	}
}

// SetRefuseStart controls whether System.Start fails.
func (s *System) SetRefuseStart(v bool) {
	s.mu.Lock()
	s.refuse = v
	s.mu.Unlock()
}

// Events returns a copy of the seam log.
func (s *System) Events() []Event {
	s.mu.Lock()
	defer s.mu.Unlock()
	return append([]Event(nil), s.events...)
}

// Fired returns how often each fault kind actually fired.
func (s *System) Fired() map[string]int {
	s.mu.Lock()
	defer s.mu.Unlock()
	out := map[string]int{}
	for k, v := range s.fired {
		out[k] = v
	}
	return out
}

// UnfiredFaults lists planned faults that never fired.
func (s *System) UnfiredFaults() int {
	s.mu.Lock()
	defer s.mu.Unlock()
	n := 0
	for _, f := range s.cfg.Faults {
		if !f.fired {
			n++
		}
	}
	return n
}

func (s *System) logEvent(e Event) {
	e.T = int64(time.Since(s.t0))
	s.mu.Lock()
	s.events = append(s.events, e)
	cb := s.OnEvent
	s.mu.Unlock()
	if cb != nil {
		cb(e)
	}
}

func hash64(parts ...interface{}) uint64 {
	h := fnv.New64a()
	fmt.Fprint(h, parts...)
	x := h.Sum64()
	x ^= x >> 31
	x *= 0x7fb5d329728ea185
	x ^= x >> 27
	return x
}

// DelayFor computes the virtual delay for the named point occurrence.
func DelayFor(profile string, seed uint64, name string, occ int) time.Duration {
	x := hash64(seed, "|", name, "|", occ)
	switch profile {
	case "none":
		return 0
	case "ns":
		// Sub-millisecond, nanosecond-granular: two events practically never tie.
		return time.Duration(x%1000000 + 1)
	case "wide":
		switch (x >> 40) % 16 {
		case 0:
			return time.Duration(x%uint64(20*time.Second) + 1)
		case 1, 2:
			return time.Duration(x%uint64(500*time.Millisecond) + 1)
		}
		return time.Duration(x%uint64(10*time.Millisecond) + 1)
	default: // mixed
		switch (x >> 40) % 32 {
		case 0:
			return time.Duration(x%uint64(2*time.Second) + 1)
		case 1, 2, 3:
			return time.Duration(x%uint64(100*time.Millisecond) + 1)
		}
		return time.Duration(x%uint64(5*time.Millisecond) + 1)
	}
}

// point registers a seam event occurrence, sleeps its virtual delay and
// returns the faults that fire on it.
func (s *System) point(pt, method, callee, key string) (occ int, fire []*Fault) {
	name := pt + "|" + method + "|" + callee + "|" + key
	s.mu.Lock()
	s.occ[name]++
	occ = s.occ[name]
	for _, f := range s.cfg.Faults {
		if f.fired || f.At.Point != pt {
			continue
		}
		if f.At.Method != "" && f.At.Method != method {
			continue
		}
		if f.At.Callee != "" && f.At.Callee != callee {
			continue
		}
		if f.At.Key != "" && f.At.Key != key {
			continue
		}
		f.seen++
		want := f.At.Occ
		if want == 0 {
			want = 1
		}
		if f.seen == want {
			f.fired = true
			fire = append(fire, f)
		}
	}
	var stall time.Duration
	if m := s.ms[callee]; m != nil && !m.stallTil.IsZero() {
		if d := time.Until(m.stallTil); d > 0 {
			stall = d
		}
	}
	s.mu.Unlock()
	if !s.cfg.NoDelayMethods[method] {
		profile := s.cfg.DelayProfile
		if isSupervisor(method) && profile != "none" {
			// Keepalive traffic only gets sub-millisecond jitter: long delays
			// there are a fault kind of their own (stall).
			profile = "ns"
		}
		if d := DelayFor(profile, s.cfg.DelaySeed, name, occ) + stall; d > 0 {
			time.Sleep(d)
		}
	}
	return occ, fire
}

// apply performs the side effects of a fault that are not specific to the
// current call. It returns the fault kinds that the caller must act on.
func (s *System) apply(f *Fault, callee string, acts map[string]*Fault) {
	target := f.Target
	if target == "" {
		target = callee
	}
	switch f.Do {
	case "kill":
		s.Kill(target)
	case "stall":
		s.mu.Lock()
		if m := s.ms[target]; m != nil {
			m.stallTil = time.Now().Add(time.Duration(f.Arg))
			s.fired["stall"]++
		}
		s.mu.Unlock()
	case "refuse-start":
		s.SetRefuseStart(true)
	case "allow-start":
		s.SetRefuseStart(false)
	case "delay":
		s.mu.Lock()
		s.fired["delay"]++
		s.mu.Unlock()
		time.Sleep(time.Duration(f.Arg))
	default:
		if acts != nil {
			acts[f.Do] = f
		}
	}
}

func isSupervisor(method string) bool { return strings.HasPrefix(method, "Supervisor.") }

type respWriter struct {
	h            http.Header
	pw           *io.PipeWriter
	once         sync.Once
	relOnce      sync.Once
	ready        chan struct{}
	resp         *http.Response
	sys          *System
	method       string
	callee       string
	key          string
	off          int64
	code         int
	buf          bytes.Buffer
	wrote        bool
	stream       bool
	cut          *Fault
	flip         *Fault
	killAfterCut bool
	// gob message framing of the body, for Bounds.
	msgLeft int64  // bytes of the current message still to come
	lenBuf  []byte // partial length prefix
	dead         bool
}

func (w *respWriter) Header() http.Header { return w.h }

func (w *respWriter) release() {
	w.relOnce.Do(func() {
		w.resp.StatusCode = w.code
		w.resp.Status = fmt.Sprintf("%d %s", w.code, http.StatusText(w.code))
		w.resp.Header = w.h.Clone()
		close(w.ready)
	})
}

func (w *respWriter) WriteHeader(code int) {
	w.once.Do(func() {
		w.wrote = true
		w.code = code
		w.stream = w.h.Get("Content-Type") == "application/octet-stream"
		if w.stream {
			w.release()
		}
	})
}

func (w *respWriter) Write(p []byte) (int, error) {
	w.WriteHeader(200)
	if !w.stream {
		// Non-streaming replies are buffered and delivered whole after the
		// reply seam.
		return w.buf.Write(p)
	}
	if w.dead {
		return 0, io.ErrClosedPipe
	}
	{
		_, fire := w.sys.point("chunk", w.method, w.callee, w.key)
		acts := map[string]*Fault{}
		for _, f := range fire {
			w.sys.apply(f, w.callee, acts)
		}
		if f := acts["cut"]; f != nil {
			w.cut = f
		}
		if f := acts["cutkill"]; f != nil {
			// Deliver Arg bytes of the body, then the machine dies: the reader's
			// resumed reads fail too (a machine lost in the middle of a shuffle read).
			w.cut = f
			w.killAfterCut = true
		}
		if f := acts["flip"]; f != nil {
			w.flip = f
		}
		dec := "pass"
		if w.cut != nil {
			k := w.cut.Arg - w.off
			if k < 0 {
				k = 0
			}
			if k < int64(len(p)) {
				if k > 0 {
					w.pw.Write(p[:k])
				}
				w.dead = true
				w.sys.mu.Lock()
				w.sys.fired["cut"]++
				w.sys.mu.Unlock()
				w.sys.logEvent(Event{Point: "chunk", Method: w.method, Callee: w.callee, Key: w.key, Decision: fmt.Sprintf("cut(%d)", w.off+k)})
				w.pw.CloseWithError(fmt.Errorf("read tcp %s: connection reset by peer", w.callee))
				if w.killAfterCut {
					w.sys.Kill(w.callee)
				}
				return int(k), io.ErrClosedPipe
			}
		}
		if w.flip != nil {
			k := w.flip.Arg - w.off
			if k >= 0 && k < int64(len(p)) {
				q := append([]byte(nil), p...)
				q[k] ^= 0x10
				p = q
				dec = fmt.Sprintf("flip(%d)", w.off+k)
				w.flip = nil
				w.sys.mu.Lock()
				w.sys.fired["flip"]++
				w.sys.mu.Unlock()
			}
		}
		if !isSupervisor(w.method) || w.sys.cfg.LogSupervisor {
			w.sys.logEvent(Event{Point: "chunk", Method: w.method, Callee: w.callee, Key: fmt.Sprintf("%s+%d", w.key, w.off), Decision: dec, Len: len(p), Bounds: w.bounds(p)})
		}
	}
	n, err := w.pw.Write(p)
	w.off += int64(n)
	return n, err
}
func (w *respWriter) Flush() {}

// bounds advances the gob framing state over p (which starts at body offset
// w.off) and returns the offsets at which messages start.
func (w *respWriter) bounds(p []byte) []int64 {
	if w.method != "Worker.Read" {
		return nil
	}
	var out []int64
	for i := 0; i < len(p); {
		if w.msgLeft > 0 {
			k := int64(len(p) - i)
			if k > w.msgLeft {
				k = w.msgLeft
			}
			w.msgLeft -= k
			i += int(k)
			continue
		}
		if len(w.lenBuf) == 0 {
			out = append(out, w.off+int64(i))
		}
		w.lenBuf = append(w.lenBuf, p[i])
		i++
		b0 := w.lenBuf[0]
		if b0 < 128 {
			w.msgLeft, w.lenBuf = int64(b0), w.lenBuf[:0]
			continue
		}
		n := int(-int8(b0))
		if n < 1 || n > 8 {
			return out // not gob framing; give up quietly
		}
		if len(w.lenBuf) == 1+n {
			var v int64
			for _, b := range w.lenBuf[1:] {
				v = v<<8 | int64(b)
			}
			w.msgLeft, w.lenBuf = v, w.lenBuf[:0]
		}
	}
	return out
}

// Mirror types for decoding request keys (gob matches fields by name).
type taskName struct {
	InvIndex        uint64
	Op              string
	Shard, NumShard int
}

func (n taskName) String() string {
	if n.NumShard == 0 {
		return n.Op + "_combiner"
	}
	return fmt.Sprintf("%s@%d:%d", n.Op, n.NumShard, n.Shard)
}

type runReq struct {
	Invocation uint64
	Name       taskName
}
type partReq struct {
	Name      taskName
	Partition int
	Offset    int64
}

func requestKey(method string, body []byte) string {
	dec := gob.NewDecoder(bytes.NewReader(body))
	switch method {
	case "Worker.Run":
		var r runReq
		if dec.Decode(&r) == nil {
			return r.Name.String()
		}
	case "Worker.Read", "Worker.Stat":
		var r partReq
		if dec.Decode(&r) == nil {
			if method == "Worker.Read" {
				return fmt.Sprintf("%s/p%d+%d", r.Name, r.Partition, r.Offset)
			}
			return fmt.Sprintf("%s/p%d", r.Name, r.Partition)
		}
	case "Worker.Discard", "Worker.CommitCombiner", "Worker.TaskStats":
		var r taskName
		if dec.Decode(&r) == nil {
			return r.String()
		}
	case "Worker.Compile":
		return fmt.Sprintf("h%x", hash64(body)&0xffffff)
	case "Worker.FuncLocations", "Worker.Stats":
		return ""
	}
	if isSupervisor(method) {
		return ""
	}
	return fmt.Sprintf("h%x", hash64(body)&0xffffff)
}

func netErr(format string, args ...interface{}) error {
	return fmt.Errorf(format, args...)
}

// RoundTrip implements http.RoundTripper: the simulated network.
func (s *System) RoundTrip(req *http.Request) (*http.Response, error) {
	callee := req.URL.Host
	method := strings.TrimPrefix(req.URL.Path, bigmachine.RpcPrefix)
	var body []byte
	if req.Body != nil {
		var err error
		body, err = io.ReadAll(req.Body)
		req.Body.Close()
		if err != nil {
			return nil, err
		}
	}
	key := requestKey(method, body)
	logged := !isSupervisor(method) || s.cfg.LogSupervisor
	switch method {
	case "Supervisor.MemInfo", "Supervisor.DiskInfo", "Supervisor.LoadInfo":
		return nil, netErr("simnet: host statistics are not simulated")
	}

	occ, fire := s.point("send", method, callee, key)
	acts := map[string]*Fault{}
	for _, f := range fire {
		s.apply(f, callee, acts)
	}
	if err := req.Context().Err(); err != nil {
		return nil, err
	}
	if acts["drop"] != nil {
		s.mu.Lock()
		s.fired["drop-request"]++
		s.mu.Unlock()
		s.logEvent(Event{Point: "send", Method: method, Callee: callee, Key: key, Occ: occ, Decision: "drop"})
		return nil, netErr("write tcp %s: broken pipe (request dropped)", callee)
	}
	s.mu.Lock()
	m := s.ms[callee]
	if m == nil || m.dead {
		s.mu.Unlock()
		if logged {
			s.logEvent(Event{Point: "send", Method: method, Callee: callee, Key: key, Occ: occ, Decision: "refused"})
		}
		return nil, netErr("dial tcp %s: connection refused", callee)
	}
	sctx, cancel := context.WithCancel(context.Background())
	pr, pw := io.Pipe()
	rw := &respWriter{h: http.Header{}, pw: pw, ready: make(chan struct{}), sys: s, method: method, callee: callee, key: key}
	rw.resp = &http.Response{Proto: "HTTP/1.1", ProtoMajor: 1, ProtoMinor: 1, Body: pr, Request: req, Trailer: http.Header{}}
	failed := make(chan error, 1)
	c := &call{cancel: cancel, fail: func(err error) {
		select {
		case failed <- err:
		default:
		}
		pw.CloseWithError(err)
	}}
	m.inflight[c] = struct{}{}
	s.mu.Unlock()
	if logged {
		s.logEvent(Event{Point: "send", Method: method, Callee: callee, Key: key, Occ: occ, Decision: "pass"})
	}
	sreq := req.Clone(sctx)
	sreq.Body = io.NopCloser(bytes.NewReader(body))
	// The client going away cancels the server-side request context.
	stop := context.AfterFunc(req.Context(), cancel)
	dropReply := make(chan struct{})
	go func() {
		defer stop()
		m.mux.ServeHTTP(rw, sreq)
		rocc, rfire := s.point("reply", method, callee, key)
		racts := map[string]*Fault{}
		for _, f := range rfire {
			s.apply(f, callee, racts)
		}
		s.mu.Lock()
		delete(m.inflight, c)
		dead := m.dead
		s.mu.Unlock()
		decision := "pass"
		switch {
		case racts["drop"] != nil:
			decision = "drop"
			s.mu.Lock()
			s.fired["drop-reply"]++
			s.mu.Unlock()
			close(dropReply)
			pw.CloseWithError(netErr("read tcp %s: connection reset by peer (reply dropped)", callee))
		case dead:
			decision = "dead"
			pw.CloseWithError(netErr("read tcp %s: connection reset by peer", callee))
		default:
			rw.WriteHeader(200)
			for k, v := range rw.h {
				if k == "X-Bigmachine-Error" {
					rw.resp.Trailer[k] = v
				}
			}
			if f := racts["skew"]; f != nil && !rw.stream {
				// A worker built from a different binary: rewrite the reply
				// of Worker.FuncLocations (a gob []string).
				var locs []string
				if err := gob.NewDecoder(bytes.NewReader(rw.buf.Bytes())).Decode(&locs); err == nil {
					switch f.Arg {
					case 0:
						locs = append(locs, "/other/binary.go:1")
					case 1:
						if len(locs) > 0 {
							locs = locs[:len(locs)-1]
						}
					case 2:
						if len(locs) > 0 {
							locs = append([]string{"/other/binary.go:2"}, locs[1:]...)
						}
					default:
						// identical list: re-encoded only
					}
					rw.buf.Reset()
					gob.NewEncoder(&rw.buf).Encode(locs)
					s.mu.Lock()
					s.fired["registry-skew"]++
					s.mu.Unlock()
				}
			}
			if !rw.stream {
				rw.release()
				if rw.buf.Len() > 0 {
					pw.Write(rw.buf.Bytes())
				}
			}
			pw.Close()
		}
		if logged {
			s.logEvent(Event{Point: "reply", Method: method, Callee: callee, Key: key, Occ: rocc, Decision: decision})
		}
		cancel()
	}()
	select {
	case <-rw.ready:
		return rw.resp, nil
	case <-dropReply:
		return nil, netErr("read tcp %s: connection reset by peer (reply dropped)", callee)
	case err := <-failed:
		return nil, err
	case <-req.Context().Done():
		pr.CloseWithError(req.Context().Err())
		return nil, req.Context().Err()
	}
}
