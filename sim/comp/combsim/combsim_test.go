// Package combsim feeds combining buffers (the combining frame and the
// spilling combiner) from several simulated producer tasks in a seeded
// interleaving, with randomised size knobs, and checks the result and the
// spill directory (C09).
package combsim

import (
	"bytes"
	"context"
	"encoding/json"
	"fmt"
	"os"
	"path/filepath"
	"reflect"
	"sort"
	"testing"
	"time"

	"github.com/grailbio/base/log"
	"github.com/grailbio/bigslice/exec"
	"github.com/grailbio/bigslice/frame"
	"github.com/grailbio/bigslice/slicefunc"
	"github.com/grailbio/bigslice/sliceio"

	"verifsim/compkit"
	"verifsim/interp"
	"verifsim/spec"
)

// Case is an explicit combining case.
type Case struct {
	Level  string `json:"level"` // frame | combiner
	KT     string `json:"kt"`    // key type; "kkv2" = (string,int) prefix 2
	Fn     string `json:"fn"`    // sum | min | xor
	Card   int    `json:"card"`
	DSeed  int    `json:"dseed"`
	Keys   []int  `json:"keys,omitempty"` // explicit key indices (exhaustive mode), one row each
	// Producers: batch sizes per simulated producer task.
	Producers [][]int `json:"producers,omitempty"`
	Sched     uint64  `json:"sched,omitempty"`  // interleaving seed
	Target    int     `json:"target,omitempty"` // spill threshold (combiner)
	Table     int     `json:"table,omitempty"`  // initial table size (frame level)
	Scratch   int     `json:"scratch,omitempty"`
	Via       string  `json:"via,omitempty"` // reader | writeto
	Discard   bool    `json:"discard,omitempty"`
	Offset    int     `json:"offset,omitempty"` // input frames are views at this offset
	// Damage: before reading back, one spill file is replaced by a link to
	// itself, so that opening it fails (a read-back fault).
	Damage bool `json:"damage,omitempty"`
}

func typeOf(c *Case) spec.Type {
	if c.KT == "kkv2" {
		return spec.Type{Cols: []string{"string", "int", "int"}, Prefix: 2}
	}
	return spec.Type{Cols: []string{c.KT, "int"}, Prefix: 1}
}

func rowFor(c *Case, i int) spec.Row {
	card := c.Card
	if card < 1 {
		card = 1
	}
	j := int(spec.Hash(fmt.Sprint(c.DSeed, "k", i)) % uint64(card))
	if c.DSeed%3 == 0 {
		// skewed
		j = j * int(spec.Hash(fmt.Sprint("s", i))%3) / 2 % card
	}
	return keyRow(c, j, i*3+1)
}

func keyRow(c *Case, j, v int) spec.Row {
	if c.KT == "kkv2" {
		return spec.Row{spec.KeyOf("string", j/3), j % 3, v}
	}
	return spec.Row{spec.KeyOf(c.KT, j), v}
}

func combineFn(fn string) slicefunc.Func {
	f, _ := slicefunc.Of(func(a, b int) int { return spec.Combine(fn, a, b) })
	return f
}

func mkFrame(t spec.Type, rows []spec.Row, offset int) frame.Frame {
	f := frame.Make(interp.SliceType(t), len(rows)+offset+1, len(rows)+offset+1)
	for i, r := range rows {
		for c, v := range r {
			f.Index(c, offset+i).Set(reflect.ValueOf(v))
		}
	}
	return f.Slice(offset, offset+len(rows))
}

func frameRows(t spec.Type, f frame.Frame) []spec.Row {
	var rows []spec.Row
	for i := 0; i < f.Len(); i++ {
		r := make(spec.Row, len(t.Cols))
		for c := range t.Cols {
			v := f.Index(c, i).Interface()
			if b, ok := v.([]byte); ok {
				v = append([]byte{}, b...)
			}
			r[c] = v
		}
		rows = append(rows, r)
	}
	return rows
}

func reference(c *Case, t spec.Type, all []spec.Row) map[string]spec.Row {
	ref := map[string]spec.Row{}
	for _, r := range all {
		k := spec.KeyCanon(r, t.Prefix)
		if e, ok := ref[k]; ok {
			e[len(e)-1] = spec.Combine(c.Fn, e[len(e)-1].(int), r[len(r)-1].(int))
		} else {
			ref[k] = append(spec.Row(nil), r...)
		}
	}
	return ref
}

func lessRow(t spec.Type, a, b spec.Row) bool {
	for i := 0; i < t.Prefix; i++ {
		ca, cb := a[i], b[i]
		switch x := ca.(type) {
		case int:
			if x != cb.(int) {
				return x < cb.(int)
			}
		case int64:
			if x != cb.(int64) {
				return x < cb.(int64)
			}
		case string:
			if x != cb.(string) {
				return x < cb.(string)
			}
		case uint8:
			if x != cb.(uint8) {
				return x < cb.(uint8)
			}
		case uint16:
			if x != cb.(uint16) {
				return x < cb.(uint16)
			}
		case float64:
			if x != cb.(float64) {
				return x < cb.(float64)
			}
		case bool:
			if x != cb.(bool) {
				return !x
			}
		case []byte:
			if c := bytes.Compare(x, cb.([]byte)); c != 0 {
				return c < 0
			}
		}
	}
	return false
}

type outcome struct {
	class, detail string
	probes        map[string]int
}

func spillDirs() []string {
	m, _ := filepath.Glob(filepath.Join(os.Getenv("TMPDIR"), "spiller-*"))
	return m
}

func checkRows(c *Case, t spec.Type, got []spec.Row, all []spec.Row, sorted bool) (string, string) {
	ref := reference(c, t, all)
	seen := map[string]bool{}
	for i, r := range got {
		k := spec.KeyCanon(r, t.Prefix)
		if seen[k] {
			return "duplicate-key", fmt.Sprintf("key %s emitted twice", k)
		}
		seen[k] = true
		w, ok := ref[k]
		if !ok {
			return "invented-key", fmt.Sprintf("key %s was never fed", k)
		}
		if spec.CanonRow(w) != spec.CanonRow(r) {
			return "wrong-value", fmt.Sprintf("key %s: got %s, want %s", k, spec.CanonRow(r), spec.CanonRow(w))
		}
		if sorted && i > 0 && !lessRow(t, got[i-1], r) {
			return "not-ascending", fmt.Sprintf("row %d (%s) does not sort after row %d (%s)", i, spec.CanonRow(r), i-1, spec.CanonRow(got[i-1]))
		}
	}
	if len(got) != len(ref) {
		return "missing-key", fmt.Sprintf("%d distinct keys fed, %d rows emitted", len(ref), len(got))
	}
	return "", ""
}

func runCase(c *Case) (o outcome) {
	compkit.Journal(c)
	o.probes = map[string]int{}
	defer func() {
		if e := recover(); e != nil {
			o.class, o.detail = "combiner-panic", fmt.Sprint(e)
		}
	}()
	t := typeOf(c)
	ctx := context.Background()
	// Build the producers' frame streams.
	var streams [][][]spec.Row
	var all []spec.Row
	idx := 0
	if len(c.Keys) > 0 {
		var rows []spec.Row
		for i, j := range c.Keys {
			rows = append(rows, keyRow(c, j, i*3+1))
		}
		all = rows
		var batches [][]spec.Row
		for _, r := range rows {
			batches = append(batches, []spec.Row{r})
		}
		streams = [][][]spec.Row{batches}
	} else {
		for _, p := range c.Producers {
			var batches [][]spec.Row
			for _, n := range p {
				var rows []spec.Row
				for k := 0; k < n; k++ {
					rows = append(rows, rowFor(c, idx))
					idx++
				}
				all = append(all, rows...)
				batches = append(batches, rows)
			}
			streams = append(streams, batches)
		}
	}
	r := compkit.New(c.Sched)
	nextBatch := func() []spec.Row {
		var live []int
		for i, s := range streams {
			if len(s) > 0 {
				live = append(live, i)
			}
		}
		if len(live) == 0 {
			return nil
		}
		i := live[r.Intn(len(live))]
		b := streams[i][0]
		streams[i] = streams[i][1:]
		if b == nil {
			b = []spec.Row{}
		}
		return b
	}
	switch c.Level {
	case "frame":
		table := c.Table
		if table == 0 {
			table = 8
		}
		scratch := c.Scratch
		if scratch < 1 {
			scratch = 1
		}
		cf := exec.VerifMakeCombiningFrame(interp.SliceType(t), combineFn(c.Fn), table, scratch)
		for b := nextBatch(); b != nil; b = nextBatch() {
			cf.Combine(mkFrame(t, b, c.Offset))
		}
		ref := reference(c, t, all)
		if cf.Len() != len(ref) {
			o.class, o.detail = "wrong-len", fmt.Sprintf("Len()=%d with %d distinct keys fed", cf.Len(), len(ref))
			return
		}
		if cf.Cap() > table {
			o.probes["table_grew"]++
		}
		got := frameRows(t, cf.Compact())
		o.class, o.detail = checkRows(c, t, got, all, false)
		if o.class == "" && cf.Len() != 0 {
			o.class, o.detail = "compact-did-not-empty", fmt.Sprintf("Len()=%d after Compact", cf.Len())
		}
	case "combiner":
		before := len(spillDirs())
		target := c.Target
		if target < 1 {
			target = 1
		}
		comb, err := exec.VerifNewCombiner(interp.SliceType(t), fmt.Sprintf("cs%d", c.Sched), combineFn(c.Fn), target)
		if err != nil {
			o.class, o.detail = "constructor-error", err.Error()
			return
		}
		if n := len(spillDirs()); n > before {
			o.probes["spill_dir_created"]++
		}
		for b := nextBatch(); b != nil; b = nextBatch() {
			if err := comb.Combine(ctx, mkFrame(t, b, c.Offset)); err != nil {
				o.class, o.detail = "combine-error", err.Error()
				return
			}
		}
		if c.Discard {
			if err := comb.Discard(); err != nil {
				o.class, o.detail = "discard-error", err.Error()
				return
			}
		} else {
			damaged := false
			if c.Damage {
				// Fault at read-back time: a spill file that cannot be opened.
				for _, d := range spillDirs() {
					if files, _ := filepath.Glob(filepath.Join(d, "*", "*", "*", "spill-*")); len(files) > 0 {
						f := files[int(c.Sched)%len(files)]
						if os.Remove(f) == nil && os.Symlink(filepath.Base(f), f) == nil {
							damaged = true
							o.probes["spill_file_damaged"]++
						}
						break
					}
				}
			}
			var got []spec.Row
			if damaged {
				var err error
				if c.Via == "writeto" {
					var buf bytes.Buffer
					_, err = comb.WriteTo(ctx, sliceio.NewEncodingWriter(&buf))
				} else {
					var rd sliceio.Reader
					if rd, err = comb.Reader(); err == nil {
						_, err = interp.ScanAll(ctx, t, sliceio.NewScanner(interp.SliceType(t), sliceio.NopCloser(rd)))
					}
				}
				if err == nil {
					o.class, o.detail = "damage-not-reported", "a spill file could not be opened, yet reading the combiner back succeeded"
					return
				}
				o.probes["readback_error_reported"]++
				if n := len(spillDirs()); n > before {
					o.class, o.detail = "spill-files-left", fmt.Sprintf("%d spill directories remain after a failed read-back: %v", n-before, spillDirs())
				}
				return
			}
			if c.Via == "writeto" {
				var buf bytes.Buffer
				n, err := comb.WriteTo(ctx, sliceio.NewEncodingWriter(&buf))
				if err != nil {
					o.class, o.detail = "writeto-error", err.Error()
					return
				}
				rd := sliceio.NewDecodingReader(&buf)
				got, err = interp.ScanAll(ctx, t, sliceio.NewScanner(interp.SliceType(t), sliceio.NopCloser(rd)))
				if err != nil {
					o.class, o.detail = "decode-error", err.Error()
					return
				}
				if int(n) != len(got) {
					o.class, o.detail = "wrong-count", fmt.Sprintf("WriteTo reported %d rows, the stream holds %d", n, len(got))
					return
				}
			} else {
				rd, err := comb.Reader()
				if err != nil {
					o.class, o.detail = "reader-error", err.Error()
					return
				}
				got, err = interp.ScanAll(ctx, t, sliceio.NewScanner(interp.SliceType(t), sliceio.NopCloser(rd)))
				if err != nil {
					o.class, o.detail = "read-error", err.Error()
					return
				}
			}
			o.class, o.detail = checkRows(c, t, got, all, true)
			if o.class != "" {
				return
			}
			ref := reference(c, t, all)
			if len(ref) > target {
				o.probes["spilled"]++
			}
		}
		if n := len(spillDirs()); n > before {
			o.class, o.detail = "spill-files-left", fmt.Sprintf("%d spill directories remain after the combiner was read or discarded: %v", n-before, spillDirs())
		}
	}
	return
}

var keyTypes = []string{"int", "string", "int64", "uint8", "uint16", "float64", "bool", "bytes", "kkv2"}

func genCase(r compkit.Rand) *Case {
	c := &Case{Level: "combiner", KT: keyTypes[r.Intn(len(keyTypes))], Fn: []string{"sum", "min", "xor"}[r.Intn(3)],
		Card: r.Pick(1, 2, 5, 8, 9, 17, 100, 1000), DSeed: r.Intn(1000), Sched: r.Uint64() % 1000000, Offset: r.Pick(0, 0, 1, 5)}
	if r.Chance(0.35) {
		c.Level = "frame"
		c.Table = r.Pick(1, 2, 4, 8, 8, 16, 64)
		c.Scratch = r.Pick(1, 1, 2, 8)
	} else {
		c.Target = r.Pick(1, 1, 2, 3, 8, 100, 100000)
		c.Via = []string{"reader", "writeto"}[r.Intn(2)]
		c.Discard = r.Chance(0.1)
		c.Damage = !c.Discard && r.Chance(0.15)
	}
	if kt := c.KT; kt != "kkv2" {
		if m := spec.MaxCard(kt); c.Card > m {
			c.Card = m
		}
	}
	if r.Chance(0.004) {
		// A hot key: one or two keys combined tens of thousands of times into a
		// table that never spills (per-slot bookkeeping must not wear out).
		c.Card = r.Pick(1, 2)
		c.Discard, c.Damage = false, false
		if c.Level != "frame" {
			c.Target = 100000
		}
		n := r.Pick(66000, 70000, 140000)
		per := r.Pick(1000, 8000, 8192)
		for n > 0 {
			c.Producers = append(c.Producers, nil)
			p := len(c.Producers) - 1
			for k := 0; k < 6 && n > 0; k++ {
				c.Producers[p] = append(c.Producers[p], per)
				n -= per
			}
			if len(c.Producers) == 4 {
				for n > 0 {
					c.Producers[3] = append(c.Producers[3], per)
					n -= per
				}
			}
		}
		return c
	}
	np := 1 + r.Intn(4)
	for p := 0; p < np; p++ {
		var b []int
		for k := 0; k < 1+r.Intn(5); k++ {
			b = append(b, r.Pick(0, 1, 1, 2, 3, 8, 50, 200))
		}
		c.Producers = append(c.Producers, b)
	}
	return c
}

type quiet struct{}

func (quiet) Level() log.Level                                      { return log.Off }
func (quiet) Output(calldepth int, level log.Level, s string) error { return nil }

func TestBatch(t *testing.T) {
	seed, tier, out, _ := compkit.Env()
	if out == "" {
		t.Skip("VERIF_OUT not set")
	}
	log.SetOutputter(quiet{})
	n, budget := 3000, 60*time.Second
	exhLen := 5
	if tier != "quick" {
		n, budget, exhLen = 200000, 15*time.Minute, 7
	}
	if v := os.Getenv("VERIF_N"); v != "" {
		fmt.Sscanf(v, "%d", &n)
	}
	if v := os.Getenv("VERIF_BUDGET_S"); v != "" {
		var s int
		fmt.Sscanf(v, "%d", &s)
		budget = time.Duration(s) * time.Second
	}
	start := time.Now()
	dl := compkit.Within(budget)
	res := &compkit.Result{Property: "C09", Engine: "comp-combsim", Probes: map[string]int{}, Faults: map[string]int{},
		Rule: fmt.Sprintf("(a) the combining frame alone: EVERY key sequence of length <= %d over a 4-key alphabet into tables of initial size 1,2,4,8 (every probe sequence, resize and compaction order of a size-8 table), plus seeded streams; (b) the spilling combiner fed by 1-4 simulated producer tasks whose frames (views at an offset, empty batches included) arrive in a seeded interleaving, spill thresholds from 1 key upward (many spills), per-process vector sizes, all key types incl. a 2-column key, read back through Reader or WriteTo+decoder, or discarded; oracle: exactly one row per distinct key, ascending key order (combiner), value == fold of all values fed, Len/Compact consistent, no spill directory left; distinct = distinct case hashes", exhLen),
		Stubs: []string{"real: exec combiningFrame, combiner, sliceio.Spiller (real files on a per-process tmpfs dir), sortio.Reduce", "stub: the producer tasks and their interleaving (simulated; access to a combiner is exclusive by construction in the worker, so turn-taking is the whole schedule space)"},
		Extra: map[string]any{"knobs": map[string]string{"VERIF_CHUNK": os.Getenv("VERIF_CHUNK")}},
		Assumptions: []string{"no fault dimension: the spiller uses package os directly (no seam); the hash-table part is decided by input enumeration carried by the harness"},
	}
	distinct := map[string]bool{}
	seen := map[string]bool{}
	record := func(c *Case, s uint64) {
		o := runCase(c)
		res.Evaluations++
		distinct[compkit.Hash(c)] = true
		for k, v := range o.probes {
			res.Probes[k] += v
		}
		res.Probes["level:"+c.Level]++
		if o.class != "" && !seen[o.class+c.Level] {
			seen[o.class+c.Level] = true
			b, _ := json.Marshal(c)
			res.Violations = append(res.Violations, compkit.Violation{Class: o.class, Detail: o.detail, Seed: s, Case: b})
		}
	}
	// (a) bounded-exhaustive key sequences (process 0 only).
	if p := os.Getenv("VERIF_PROC"); p == "0" || p == "" {
		for _, table := range []int{1, 2, 4, 8} {
			var rec func(keys []int)
			rec = func(keys []int) {
				if len(keys) > 0 {
					record(&Case{Level: "frame", KT: "int", Fn: "sum", Card: 4, Keys: append([]int(nil), keys...), Table: table, Scratch: 1}, 0)
				}
				if len(keys) == exhLen {
					return
				}
				for k := 0; k < 4; k++ {
					rec(append(keys, k))
				}
			}
			rec(nil)
		}
		res.Probes["exhaustive_done"]++
	}
	for i := 0; i < n && !dl.Passed(); i++ {
		s := compkit.Mix(seed, "C09", i)
		c := genCase(compkit.New(s))
		if len(res.Samples) < 3 {
			res.Samples = append(res.Samples, c)
		}
		record(c, s)
	}
	res.Distinct = len(distinct)
	res.WallS = time.Since(start).Seconds()
	if err := res.Write(out); err != nil {
		t.Fatal(err)
	}
	_ = sort.Ints
}

func TestReplay(t *testing.T) {
	_, _, out, replay := compkit.Env()
	if replay == "" {
		t.Skip("VERIF_REPLAY not set")
	}
	log.SetOutputter(quiet{})
	b, err := os.ReadFile(replay)
	if err != nil {
		t.Fatal(err)
	}
	var c Case
	if err := json.Unmarshal(b, &c); err != nil {
		t.Fatal(err)
	}
	o := runCase(&c)
	res := &compkit.Result{Property: "C09", Engine: "comp-combsim", Evaluations: 1}
	if o.class != "" {
		res.Violations = []compkit.Violation{{Class: o.class, Detail: o.detail, Case: b}}
	}
	fmt.Println("class:", o.class, "detail:", o.detail)
	if out != "" {
		res.Write(out)
	}
}
