// Package streamsim sends frames through the real row-stream encoder, a
// simulated byte channel (bit flips, bursts, truncation, short reads) and the
// real decoder, and checks fidelity and damage detection (C07).
package streamsim

import (
	"bytes"
	"context"
	"encoding/json"
	"fmt"
	"io"
	"os"
	"reflect"
	"testing"
	"time"

	"github.com/grailbio/bigslice/frame"
	"github.com/grailbio/bigslice/sliceio"
	"github.com/grailbio/bigslice/slicetype"

	"verifsim/compkit"
	"verifsim/interp"
	"verifsim/spec"
)

// Case is an explicit, replayable stream case.
type Case struct {
	Cols    []string `json:"cols"`    // column type names of the universe
	Batches []int    `json:"batches"` // rows per written batch
	Offset  int      `json:"offset"`  // written frames are views at this offset of a larger frame
	DSeed   int      `json:"dseed"`
	Dst     []int    `json:"dst"` // destination sizes, cycled
	// Damage.
	Flips    []int `json:"flips,omitempty"`    // bit positions to flip
	Truncate int   `json:"truncate,omitempty"` // cut the stream to this many bytes (0 = no cut)
	// Channel read sizes (cycled; 0 = unlimited).
	ReadSizes []int `json:"read_sizes,omitempty"`
	UnexpEOF  bool  `json:"unexpected_eof,omitempty"` // the cut channel reports io.ErrUnexpectedEOF instead of io.EOF
}

// gob assigns wire type ids process-globally in order of first use; encode one
// frame of every column type in a fixed order first, so that the bytes of a
// case (and hence the meaning of a damage position) do not depend on which
// cases ran before it in the process.
func init() {
	for _, col := range colUniverse {
		c := &Case{Cols: []string{col}, Batches: []int{1}}
		if _, _, _, _, err := encode(c); err != nil {
			panic(err)
		}
	}
}

var colUniverse = []string{"int", "string", "int64", "float64", "bytes", "p:gob", "p:custom", "bool", "uint8", "uint16"}

func value(col string, seed, i int) interface{} {
	h := int(spec.Hash(fmt.Sprint(col, seed, i)) % 1000003)
	switch col {
	case "int":
		return h - 500000
	case "int64":
		return int64(h) << 20
	case "string":
		return spec.PayloadOf("p:string", h%97)
	case "float64":
		return float64(h%1000) / 4
	case "bytes":
		return spec.PayloadOf("p:bytes", h%53)
	case "p:gob":
		return spec.PayloadOf("p:gob", h%1000)
	case "p:custom":
		return spec.PayloadOf("p:custom", h%1000)
	case "bool":
		return h%2 == 0
	case "uint8":
		return uint8(h)
	case "uint16":
		return uint16(h)
	}
	panic(col)
}

func makeFrame(cols []string, seed, start, n, offset int) (frame.Frame, []spec.Row) {
	types := make([]reflect.Type, len(cols))
	for i, c := range cols {
		types[i] = interp.ColType(c)
	}
	f := frame.Make(slicetype.New(types...), offset+n+2, offset+n+2)
	rows := make([]spec.Row, n)
	for r := 0; r < n; r++ {
		row := make(spec.Row, len(cols))
		for c, col := range cols {
			v := value(col, seed, start+r)
			row[c] = v
			f.Index(c, offset+r).Set(reflect.ValueOf(v))
		}
		rows[r] = row
	}
	return f.Slice(offset, offset+n), rows
}

type channel struct {
	data  []byte
	pos   int
	sizes []int
	k     int
	unexp bool
	cut   bool
}

func (c *channel) Read(p []byte) (int, error) {
	if c.pos >= len(c.data) {
		if c.cut && c.unexp {
			return 0, io.ErrUnexpectedEOF
		}
		return 0, io.EOF
	}
	n := len(p)
	if len(c.sizes) > 0 {
		if s := c.sizes[c.k%len(c.sizes)]; s > 0 && s < n {
			n = s
		}
		c.k++
	}
	if n > len(c.data)-c.pos {
		n = len(c.data) - c.pos
	}
	copy(p, c.data[c.pos:c.pos+n])
	c.pos += n
	return n, nil
}

type outcome struct {
	class, detail string
	probes        map[string]int
	stream        int
}

// encode writes all batches and returns the stream, the rows, and the byte
// offset at which each batch ends.
func encode(c *Case) ([]byte, []spec.Row, []int, []int, error) {
	var buf bytes.Buffer
	enc := sliceio.NewEncodingWriter(&buf)
	var rows []spec.Row
	var ends, rowEnds []int
	start := 0
	for _, n := range c.Batches {
		f, rs := makeFrame(c.Cols, c.DSeed, start, n, c.Offset)
		if err := enc.Write(context.Background(), f); err != nil {
			return nil, nil, nil, nil, err
		}
		start += n
		rows = append(rows, rs...)
		ends = append(ends, buf.Len())
		rowEnds = append(rowEnds, len(rows))
	}
	return buf.Bytes(), rows, ends, rowEnds, nil
}

func runCase(c *Case) (o outcome) {
	compkit.Journal(c)
	o.probes = map[string]int{}
	defer func() {
		if e := recover(); e != nil {
			o.class, o.detail = "decoder-panic", fmt.Sprint(e)
		}
	}()
	stream, rows, ends, rowEnds, err := encode(c)
	if err != nil {
		o.class, o.detail = "encode-error", err.Error()
		return
	}
	o.stream = len(stream)
	data := append([]byte(nil), stream...)
	firstDamage := -1
	for _, bit := range c.Flips {
		if bit/8 < len(data) {
			data[bit/8] ^= 1 << (uint(bit) % 8)
		}
	}
	// The damage is what actually differs (the same bit flipped twice is no damage).
	for i := range data {
		if data[i] != stream[i] {
			firstDamage = i
			break
		}
	}
	cut := false
	if c.Truncate > 0 && c.Truncate < len(data) {
		data = data[:c.Truncate]
		cut = true
		if firstDamage < 0 || c.Truncate < firstDamage {
			firstDamage = c.Truncate
		}
	}
	// Which batch holds the first damaged byte, and how many rows precede it?
	damagedBatch, okRows := -1, len(rows)
	onBoundary := false
	if firstDamage >= 0 {
		for b, e := range ends {
			if firstDamage < e {
				damagedBatch = b
				// Rows of the damaged batch itself may still be delivered when
				// only the framing of its trailing checksum is hit (they are
				// compared with the written rows like all others); no row of
				// a later batch may be.
				okRows = rowEnds[b]
				break
			}
		}
		if cut && firstDamage == c.Truncate {
			for b, e := range ends {
				if c.Truncate == e {
					onBoundary = true
					okRows = rowEnds[b]
				}
			}
			if c.Truncate == 0 {
				onBoundary = true
			}
		}
		if damagedBatch < 0 && !onBoundary {
			damagedBatch = len(ends) - 1
		}
	}
	ch := &channel{data: data, sizes: c.ReadSizes, unexp: c.UnexpEOF, cut: cut}
	r := sliceio.NewDecodingReader(ch)
	types := make([]reflect.Type, len(c.Cols))
	for i, col := range c.Cols {
		types[i] = interp.ColType(col)
	}
	typ := slicetype.New(types...)
	var got []spec.Row
	var rerr error
	for k := 0; ; k++ {
		d := 1
		if len(c.Dst) > 0 {
			d = c.Dst[k%len(c.Dst)]
		}
		if d < 1 {
			d = 1
		}
		f := frame.Make(typ, d, d)
		n, err := r.Read(context.Background(), f)
		if os.Getenv("DBG_CASE") != "" {
			fmt.Printf("read #%d dst=%d -> n=%d err=%v\n", k, d, n, err)
		}
		if n < 0 || n > d {
			o.class, o.detail = "bad-count", fmt.Sprintf("Read returned n=%d for a destination of %d rows", n, d)
			return
		}
		for i := 0; i < n; i++ {
			row := make(spec.Row, len(c.Cols))
			for col := range c.Cols {
				row[col] = copyVal(f.Index(col, i).Interface())
			}
			got = append(got, row)
		}
		if err != nil {
			rerr = err
			break
		}
		if k > 100000 {
			o.class, o.detail = "no-end", "reader did not end after 100000 reads"
			return
		}
	}
	// Every delivered row must be the written row at its position.
	for i, g := range got {
		if i >= len(rows) {
			o.class, o.detail = "invented-row", fmt.Sprintf("row %d delivered, only %d were written", i, len(rows))
			return
		}
		if spec.CanonRow(g) != spec.CanonRow(rows[i]) {
			o.class, o.detail = "wrong-row", fmt.Sprintf("row %d: wrote %s, read %s", i, spec.CanonRow(rows[i]), spec.CanonRow(g))
			return
		}
	}
	switch {
	case firstDamage < 0 || onBoundary:
		// Undamaged (or cut exactly between batches, which is a shorter valid stream).
		if rerr != sliceio.EOF && cut && c.UnexpEOF {
			// The channel itself reported an unexpected EOF at the cut: an error is right.
			o.probes["cut_reported_by_channel"]++
			return
		}
		if rerr != sliceio.EOF {
			o.class, o.detail = "error-on-valid-stream", fmt.Sprintf("reader failed with %v after %d of %d rows", rerr, len(got), okRows)
			return
		}
		if len(got) != okRows {
			o.class, o.detail = "missing-rows", fmt.Sprintf("reader ended after %d of %d rows", len(got), okRows)
			return
		}
		o.probes["clean_streams"]++
	default:
		o.probes["damaged_streams"]++
		if rerr == sliceio.EOF {
			o.class, o.detail = "damage-read-as-end-of-stream", fmt.Sprintf("stream damaged in batch %d (byte %d of %d) but the reader reported a clean end after %d rows", damagedBatch, firstDamage, len(stream), len(got))
			return
		}
		if len(got) > okRows {
			o.class, o.detail = "rows-past-damage", fmt.Sprintf("stream damaged in batch %d but %d rows were delivered (only %d precede the damage)", damagedBatch, len(got), okRows)
			return
		}
		o.probes["damage_detected"]++
	}
	return
}

func copyVal(v interface{}) interface{} {
	switch x := v.(type) {
	case []byte:
		return append([]byte{}, x...)
	case spec.GobVal:
		x.C = append([]int(nil), x.C...)
		return x
	}
	return v
}

func genCase(r compkit.Rand, small bool) *Case {
	c := &Case{DSeed: r.Intn(1000), Offset: r.Pick(0, 0, 1, 3, 17)}
	nc := 1 + r.Intn(3)
	for i := 0; i < nc; i++ {
		c.Cols = append(c.Cols, colUniverse[r.Intn(len(colUniverse))])
	}
	nb := 1 + r.Intn(4)
	for i := 0; i < nb; i++ {
		if small {
			c.Batches = append(c.Batches, r.Pick(0, 1, 1, 2, 3))
		} else {
			c.Batches = append(c.Batches, r.Pick(0, 1, 2, 7, 127, 128, 129, 300))
		}
	}
	nd := 1 + r.Intn(3)
	for i := 0; i < nd; i++ {
		c.Dst = append(c.Dst, r.Pick(1, 1, 2, 3, 64, 128, 129, 300))
	}
	if r.Chance(0.5) {
		c.ReadSizes = []int{r.Pick(1, 1, 2, 3, 7, 100), r.Pick(1, 5, 0)}
	}
	c.UnexpEOF = r.Chance(0.5)
	return c
}

func first(o outcome) string { return o.class }

func shrink(c *Case, class string) *Case {
	cur := *c
	try := func(x Case) bool { return runCase(&x).class == class }
	for changed := true; changed; {
		changed = false
		if len(cur.Batches) > 1 {
			for i := range cur.Batches {
				x := cur
				x.Batches = append(append([]int(nil), cur.Batches[:i]...), cur.Batches[i+1:]...)
				if try(x) {
					cur, changed = x, true
					break
				}
			}
		}
		for i := range cur.Batches {
			if cur.Batches[i] > 1 {
				x := cur
				x.Batches = append([]int(nil), cur.Batches...)
				x.Batches[i] = cur.Batches[i] / 2
				if try(x) {
					cur, changed = x, true
				}
			}
		}
		if len(cur.Cols) > 1 {
			for i := range cur.Cols {
				x := cur
				x.Cols = append(append([]string(nil), cur.Cols[:i]...), cur.Cols[i+1:]...)
				if try(x) {
					cur, changed = x, true
					break
				}
			}
		}
		if len(cur.ReadSizes) > 0 {
			x := cur
			x.ReadSizes = nil
			if try(x) {
				cur, changed = x, true
			}
		}
		if cur.Offset != 0 {
			x := cur
			x.Offset = 0
			if try(x) {
				cur, changed = x, true
			}
		}
		if len(cur.Dst) > 1 {
			x := cur
			x.Dst = cur.Dst[:1]
			if try(x) {
				cur, changed = x, true
			}
		}
	}
	return &cur
}

func TestBatch(t *testing.T) {
	seed, tier, out, _ := compkit.Env()
	if out == "" {
		t.Skip("VERIF_OUT not set")
	}
	n, budget := 3000, 60*time.Second
	if tier != "quick" {
		n, budget = 100000, 15*time.Minute
	}
	if v := os.Getenv("VERIF_N"); v != "" {
		fmt.Sscanf(v, "%d", &n)
	}
	if v := os.Getenv("VERIF_BUDGET_S"); v != "" {
		var s int
		fmt.Sscanf(v, "%d", &s)
		budget = time.Duration(s) * time.Second
	}
	start := time.Now()
	dl := compkit.Within(budget)
	res := &compkit.Result{Property: "C07", Engine: "comp-streamsim", Probes: map[string]int{}, Faults: map[string]int{},
		Rule: "frames over the type universe (built-in columns, gob-encoded struct, custom-codec column with session state; 1-3 columns; batches of 0..300 rows, written as views at a non-zero offset) written through the real sliceio encoder, carried over a simulated byte channel and read back through the real decoder with seeded destination sizes and channel read sizes; per generated stream: one fidelity run, and for small streams (<= 600 bytes) EVERY single-bit flip and EVERY truncation point, for large streams seeded damage restricted to classes CRC-32 is guaranteed to detect (one burst of <= 32 bits, or <= 3 flipped bits, per batch shorter than 11 KB) plus seeded truncation points; oracle: delivered rows are exactly the written rows in order; without damage: all rows then EOF; with damage in batch b: a non-EOF error and no row of batch b or later delivered; a cut exactly between two batches is a valid shorter stream; distinct = distinct (case) hashes",
		Stubs: []string{"real: sliceio.Encoder, sliceio decodingReader, frame codecs, gob", "stub: the byte channel between them (simulated: bit flips, bursts, truncation, short reads, EOF vs ErrUnexpectedEOF)"},
	}
	distinct := map[string]bool{}
	seen := map[string]bool{}
	report := func(c *Case, o outcome, s uint64) {
		if o.class == "" || seen[o.class] {
			return
		}
		seen[o.class] = true
		m := shrink(c, o.class)
		o2 := runCase(m)
		if o2.class != o.class {
			m, o2 = c, o
		}
		b, _ := json.Marshal(m)
		res.Violations = append(res.Violations, compkit.Violation{Class: o.class, Detail: o2.detail, Seed: s, Case: b})
	}
	count := func(c *Case, o outcome) {
		res.Evaluations++
		distinct[compkit.Hash(c)] = true
		for k, v := range o.probes {
			res.Probes[k] += v
		}
	}
	for i := 0; i < n && !dl.Passed(); i++ {
		s := compkit.Mix(seed, "C07", i)
		r := compkit.New(s)
		small := i%2 == 0
		c := genCase(r, small)
		o := runCase(c)
		count(c, o)
		report(c, o, s)
		if len(res.Samples) < 3 {
			res.Samples = append(res.Samples, c)
		}
		if o.class != "" {
			continue
		}
		size := o.stream
		if size <= 600 {
			// Exhaustive single-bit flips and truncation points.
			for bit := 0; bit < size*8; bit++ {
				x := *c
				x.Flips = []int{bit}
				ox := runCase(&x)
				count(&x, ox)
				res.Faults["bit-flip"]++
				report(&x, ox, s)
			}
			for cut := 1; cut < size; cut++ {
				x := *c
				x.Truncate = cut
				ox := runCase(&x)
				count(&x, ox)
				res.Faults["truncate"]++
				report(&x, ox, s)
			}
			res.Probes["streams_swept_exhaustively"]++
		} else {
			_, _, ends, _, _ := encode(c)
			for k := 0; k < 40; k++ {
				x := *c
				b := r.Intn(len(ends))
				lo := 0
				if b > 0 {
					lo = ends[b-1]
				}
				hi := ends[b]
				if hi-lo < 2 {
					continue
				}
				switch r.Intn(3) {
				case 0: // burst of <= 32 bits
					startBit := lo*8 + r.Intn((hi-lo)*8-32+1)
					nb := 1 + r.Intn(32)
					for q := 0; q < nb; q++ {
						if q == 0 || q == nb-1 || r.Chance(0.5) {
							x.Flips = append(x.Flips, startBit+q)
						}
					}
					res.Faults["burst"]++
				case 1: // <= 3 bits in a batch shorter than 11 KB
					if hi-lo >= 11000 {
						continue
					}
					for q := 0; q < 1+r.Intn(3); q++ {
						x.Flips = append(x.Flips, lo*8+r.Intn((hi-lo)*8))
					}
					res.Faults["few-bits"]++
				default:
					x.Truncate = lo + 1 + r.Intn(hi-lo-1)
					res.Faults["truncate"]++
				}
				ox := runCase(&x)
				count(&x, ox)
				report(&x, ox, s)
			}
		}
	}
	res.Distinct = len(distinct)
	res.WallS = time.Since(start).Seconds()
	if err := res.Write(out); err != nil {
		t.Fatal(err)
	}
}

func TestReplay(t *testing.T) {
	_, _, out, replay := compkit.Env()
	if replay == "" {
		t.Skip("VERIF_REPLAY not set")
	}
	b, err := os.ReadFile(replay)
	if err != nil {
		t.Fatal(err)
	}
	var c Case
	if err := json.Unmarshal(b, &c); err != nil {
		t.Fatal(err)
	}
	o := runCase(&c)
	res := &compkit.Result{Property: "C07", Engine: "comp-streamsim", Evaluations: 1}
	if o.class != "" {
		res.Violations = []compkit.Violation{{Class: o.class, Detail: o.detail, Case: b}}
	}
	fmt.Println("class:", o.class, "detail:", o.detail)
	if out != "" {
		res.Write(out)
	}
}
