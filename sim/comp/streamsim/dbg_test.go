package streamsim

import (
	"encoding/json"
	"fmt"
	"os"
	"testing"
)

func TestDbg(t *testing.T) {
	js := os.Getenv("DBG_CASE")
	if js == "" {
		t.Skip()
	}
	var c Case
	json.Unmarshal([]byte(js), &c)
	stream, rows, ends, rowEnds, _ := encode(&c)
	fmt.Printf("stream %d bytes ends=%v rowEnds=%v rows=%d\n", len(stream), ends, rowEnds, len(rows))
	for i := 0; i < len(stream); i += 16 {
		j := i + 16
		if j > len(stream) {
			j = len(stream)
		}
		fmt.Printf("%4d: %x\n", i, stream[i:j])
	}
	for _, f := range c.Flips {
		fmt.Printf("flip byte %d bit %d\n", f/8, f%8)
	}
	o := runCase(&c)
	fmt.Println("class:", o.class, o.detail)
}
