// Package storesim checks the worker task stores and the retrying remote
// reader (C15): stores over a simulated disk with a fault at every file
// operation, concurrent clients stepped at file-operation granularity and
// checked for linearizability with porcupine, and the retry reader over a
// failing opener with a fake clock.
package storesim

import (
	"bytes"
	"context"
	"encoding/json"
	"errors"
	"fmt"
	"io"
	"os"
	"sort"
	"strings"
	"sync"
	"testing"
	"testing/synctest"
	"time"

	"github.com/anishathalye/porcupine"
	"github.com/grailbio/base/log"
	"github.com/grailbio/bigslice/exec"

	"verifsim/compkit"
	"verifsim/simfs"
)

// Op is one store operation of a client.
type Op struct {
	Kind   string `json:"kind"` // W | R | S | D
	Key    int    `json:"key"`
	Len    int    `json:"len,omitempty"`    // W: data length
	DSeed  int    `json:"dseed,omitempty"`  // W: data seed
	Count  int64  `json:"count,omitempty"`  // W: record count
	Offset int64  `json:"offset,omitempty"` // R
	Chunk  int    `json:"chunk,omitempty"`  // W: write in chunks of this size (0 = all at once)
}

// Case is an explicit store case.
type Case struct {
	Mode    string         `json:"mode"`  // seq | conc | retry
	Store   string         `json:"store"` // file | memory
	Clients [][]Op         `json:"clients,omitempty"`
	Faults  []*simfs.Fault `json:"faults,omitempty"`
	Sched   uint64         `json:"sched,omitempty"` // scheduler seed (conc)
	Retry   *RetryCase     `json:"retry,omitempty"`
}

func dataFor(op Op) []byte {
	b := make([]byte, op.Len)
	x := uint32(op.DSeed*2654435761 + 12345)
	for i := range b {
		x = x*1664525 + 1013904223
		b[i] = byte(x >> 24)
	}
	return b
}

// A key names one (task, partition) entry: keys 2k and 2k+1 are the two
// partitions of one task, so that histories cover tasks with several
// partitions written, read and discarded in any order.
func taskName(key int) exec.TaskName {
	return exec.TaskName{InvIndex: 1, Op: fmt.Sprintf("op%d", key/4), Shard: (key / 2) % 2, NumShard: 2}
}

func partOf(key int) int { return key % 2 }

type result struct {
	Err     string `json:"err,omitempty"`
	NotExist bool  `json:"notexist,omitempty"`
	Data    []byte `json:"data,omitempty"`
	Size    int64  `json:"size,omitempty"`
	Count   int64  `json:"count,omitempty"`
	Faulted bool   `json:"faulted,omitempty"`
}

var prefixSeq int

func newStore(kind string) (exec.Store, string) {
	if kind == "memory" {
		return exec.VerifNewMemoryStore(), ""
	}
	prefixSeq++
	p := fmt.Sprintf("simfs://store/%d/", prefixSeq)
	return exec.VerifNewFileStore(p), p
}

// doOp performs one store operation.
func doOp(ctx context.Context, st exec.Store, op Op) (res result) {
	tn := taskName(op.Key)
	switch op.Kind {
	case "W":
		w, err := exec.VerifCreate(ctx, st, tn, partOf(op.Key))
		if err != nil {
			res.Err = err.Error()
			return
		}
		data := dataFor(op)
		for len(data) > 0 {
			n := len(data)
			if op.Chunk > 0 && op.Chunk < n {
				n = op.Chunk
			}
			if _, err := w.Write(data[:n]); err != nil {
				w.Discard(ctx)
				res.Err = err.Error()
				return
			}
			data = data[n:]
		}
		if err := w.Commit(ctx, op.Count); err != nil {
			res.Err = err.Error()
		}
	case "R":
		rc, err := st.Open(ctx, tn, partOf(op.Key), op.Offset)
		if err != nil {
			res.Err = err.Error()
			res.NotExist = strings.Contains(err.Error(), "exist") || strings.Contains(err.Error(), "no such file")
			return
		}
		b, err := io.ReadAll(rc)
		rc.Close()
		if err != nil {
			res.Err = err.Error()
			return
		}
		res.Data = b
	case "S":
		size, count, err := exec.VerifStat(ctx, st, tn, partOf(op.Key))
		if err != nil {
			res.Err = err.Error()
			res.NotExist = strings.Contains(err.Error(), "exist") || strings.Contains(err.Error(), "no such file")
			return
		}
		res.Size, res.Count = size, count
	case "D":
		if err := st.Discard(ctx, tn, partOf(op.Key)); err != nil {
			res.Err = err.Error()
			res.NotExist = strings.Contains(err.Error(), "exist") || strings.Contains(err.Error(), "no such file")
		}
	}
	return
}

type entry struct {
	data  []byte
	count int64
}

type outcome struct {
	class, detail string
	probes        map[string]int
	ops           []simfs.Op
}

// runSeq runs a sequential history against the model.
func runSeq(c *Case) (o outcome) {
	o.probes = map[string]int{}
	defer func() {
		if e := recover(); e != nil {
			o.class, o.detail = "store-panic", fmt.Sprint(e)
		}
	}()
	fs := simfs.Global()
	st, prefix := newStore(c.Store)
	faults := cloneFaults(c.Faults)
	for _, f := range faults {
		if f.PathSub == "" {
			f.PathSub = prefix
		}
	}
	fs.SetFaults(faults)
	fs.ResetLog()
	opsBefore := 0
	ctx := context.Background()
	model := map[int]*entry{}
	unknown := map[int]bool{}
	firedBefore := total(fs.Fired())
	for i, op := range c.Clients[0] {
		res := doOp(ctx, st, op)
		fired := total(fs.Fired())
		faulted := fired > firedBefore
		firedBefore = fired
		if faulted {
			o.probes["ops_hit_by_fault"]++
		}
		m := model[op.Key]
		switch op.Kind {
		case "W":
			switch {
			case res.Err == "":
				model[op.Key] = &entry{dataFor(op), op.Count}
				delete(unknown, op.Key)
				if faulted {
					o.probes["commit_ok_despite_fault"]++
				}
			case !faulted && !(c.Store == "memory" && m != nil):
				o.class, o.detail = "spurious-error", fmt.Sprintf("op %d %+v failed without an injected fault: %s", i, op, res.Err)
				return
			case faulted:
				// A failed commit must leave the entry as it was; a file
				// store re-creating an existing entry may have replaced it.
				if m != nil {
					unknown[op.Key] = true
				}
				o.probes["commit_failed"]++
			}
		case "R", "S":
			if unknown[op.Key] {
				continue
			}
			if res.Err != "" {
				if m != nil && !faulted {
					// An offset beyond the data may be rejected.
					if op.Kind == "R" && op.Offset > int64(len(m.data)) {
						continue
					}
					o.class, o.detail = "committed-entry-unreadable", fmt.Sprintf("op %d %+v failed without an injected fault although the entry is committed: %s", i, op, res.Err)
					return
				}
				continue
			}
			if m == nil {
				o.class, o.detail = "uncommitted-entry-visible", fmt.Sprintf("op %d %+v succeeded although nothing is committed under the key", i, op)
				return
			}
			if op.Kind == "R" {
				want := []byte{}
				if op.Offset <= int64(len(m.data)) {
					want = m.data[op.Offset:]
				}
				if !bytes.Equal(res.Data, want) {
					o.class, o.detail = "wrong-bytes", fmt.Sprintf("op %d %+v returned %d bytes, want %d (first difference at %d)", i, op, len(res.Data), len(want), firstDiff(res.Data, want))
					return
				}
				if op.Offset > 0 {
					o.probes["read_at_offset"]++
				}
			} else if res.Size != int64(len(m.data)) || res.Count != m.count {
				o.class, o.detail = "wrong-stat", fmt.Sprintf("op %d %+v returned size=%d count=%d, want %d/%d", i, op, res.Size, res.Count, len(m.data), m.count)
				return
			}
		case "D":
			if res.Err == "" {
				delete(model, op.Key)
				delete(unknown, op.Key)
			} else if faulted {
				unknown[op.Key] = true
			} else if m != nil {
				o.class, o.detail = "spurious-error", fmt.Sprintf("op %d %+v failed without an injected fault: %s", i, op, res.Err)
				return
			}
		}
	}
	// Final verification without faults: what the model says is committed is
	// there, exactly; what it says is absent is not visible.
	fs.SetFaults(nil)
	keys := map[int]bool{}
	for _, op := range c.Clients[0] {
		keys[op.Key] = true
	}
	for k := range keys {
		if unknown[k] {
			continue
		}
		r := doOp(ctx, st, Op{Kind: "R", Key: k})
		s := doOp(ctx, st, Op{Kind: "S", Key: k})
		if m := model[k]; m == nil {
			if r.Err == "" || s.Err == "" {
				o.class, o.detail = "failed-or-discarded-entry-visible", fmt.Sprintf("key %d has no committed entry in the model, but the store serves one (%d bytes)", k, len(r.Data))
				return
			}
		} else {
			if r.Err != "" || s.Err != "" {
				o.class, o.detail = "acknowledged-commit-lost", fmt.Sprintf("key %d was committed successfully but cannot be read back: %s %s", k, r.Err, s.Err)
				return
			}
			if !bytes.Equal(r.Data, m.data) || s.Count != m.count || s.Size != int64(len(m.data)) {
				o.class, o.detail = "acknowledged-commit-wrong", fmt.Sprintf("key %d: committed %d bytes/count %d, store serves %d bytes / size %d count %d", k, len(m.data), m.count, len(r.Data), s.Size, s.Count)
				return
			}
		}
	}
	all := fs.Ops()
	o.ops = all[opsBefore:]
	return
}

func total(m map[string]int) int {
	n := 0
	for _, v := range m {
		n += v
	}
	return n
}

func firstDiff(a, b []byte) int {
	for i := 0; i < len(a) && i < len(b); i++ {
		if a[i] != b[i] {
			return i
		}
	}
	if len(a) < len(b) {
		return len(a)
	}
	return len(b)
}

func cloneFaults(fs []*simfs.Fault) []*simfs.Fault {
	var out []*simfs.Fault
	for _, f := range fs {
		g := *f
		out = append(out, &g)
	}
	return out
}

// --- concurrent clients, stepped at file-operation granularity ---

type client struct {
	id   int
	turn chan struct{}
}

type histOp struct {
	client int
	op     Op
	res    result
	call   int64
	ret    int64
}

func runConc(c *Case) (o outcome) {
	o.probes = map[string]int{}
	fs := simfs.Global()
	st, prefix := newStore(c.Store)
	faults := cloneFaults(c.Faults)
	for _, f := range faults {
		if f.PathSub == "" {
			f.PathSub = prefix
		}
	}
	fs.SetFaults(faults)
	fs.ResetLog()
	defer fs.SetFaults(nil)
	r := compkit.New(c.Sched)
	var (
		mu      sync.Mutex
		seq     int64
		current *client
		parked  = make(chan *client)
		hist    []histOp
	)
	next := func() int64 { mu.Lock(); seq++; s := seq; mu.Unlock(); return s }
	// Every simfs operation is a scheduling point.
	fs.OnOp = func(op simfs.Op) {
		mu.Lock()
		cl := current
		mu.Unlock()
		if cl == nil {
			return
		}
		parked <- cl
		<-cl.turn
	}
	defer func() { fs.OnOp = nil }()
	clients := make([]*client, len(c.Clients))
	done := make([]bool, len(c.Clients))
	finished := make(chan int)
	for i := range c.Clients {
		clients[i] = &client{id: i, turn: make(chan struct{})}
		go func(i int) {
			cl := clients[i]
			<-cl.turn
			ctx := context.Background()
			for _, op := range c.Clients[i] {
				call := next()
				before := total(fs.Fired())
				res := doOp(ctx, st, op)
				res.Faulted = total(fs.Fired()) > before
				ret := next()
				mu.Lock()
				hist = append(hist, histOp{i, op, res, call, ret})
				mu.Unlock()
				// Between operations is a scheduling point too.
				parked <- cl
				<-cl.turn
			}
			finished <- i
		}(i)
	}
	live := len(clients)
	for live > 0 {
		var cand []int
		for i := range clients {
			if !done[i] {
				cand = append(cand, i)
			}
		}
		i := cand[r.Intn(len(cand))]
		mu.Lock()
		current = clients[i]
		mu.Unlock()
		clients[i].turn <- struct{}{}
		select {
		case <-parked:
		case j := <-finished:
			done[j] = true
			live--
		}
		mu.Lock()
		current = nil
		mu.Unlock()
	}
	// Linearizability against a nondeterministic register model per key.
	var ops []porcupine.Operation
	for _, h := range hist {
		ops = append(ops, porcupine.Operation{ClientId: h.client, Input: h.op, Output: h.res, Call: h.call, Return: h.ret})
	}
	o.probes["history_ops"] = len(ops)
	res := porcupine.CheckOperationsTimeout(storeModel(c.Store), ops, 20*time.Second)
	switch res {
	case porcupine.Illegal:
		var b strings.Builder
		sort.Slice(hist, func(i, j int) bool { return hist[i].call < hist[j].call })
		for _, h := range hist {
			fmt.Fprintf(&b, "[c%d %d-%d %s key%d off%d -> err=%q faulted=%v %dB size=%d count=%d] ", h.client, h.call, h.ret, h.op.Kind, h.op.Key, h.op.Offset, h.res.Err, h.res.Faulted, len(h.res.Data), h.res.Size, h.res.Count)
		}
		o.class, o.detail = "not-linearizable", "no sequential order of the operations explains the results: "+b.String()
	case porcupine.Unknown:
		o.probes["porcupine_timeout"]++
	}
	return
}

// state of one key: "" = absent, else "<count>|<data>".
func enc(e *entry) string {
	if e == nil {
		return ""
	}
	return fmt.Sprintf("%d|%s", e.count, e.data)
}

func storeModel(kind string) porcupine.Model {
	nm := porcupine.NondeterministicModel{
		Partition: func(history []porcupine.Operation) [][]porcupine.Operation {
			m := map[int][]porcupine.Operation{}
			for _, op := range history {
				k := op.Input.(Op).Key
				m[k] = append(m[k], op)
			}
			var out [][]porcupine.Operation
			for _, v := range m {
				out = append(out, v)
			}
			return out
		},
		Init: func() []interface{} { return []interface{}{""} },
		Step: func(state, input, output interface{}) []interface{} {
			s := state.(string)
			op := input.(Op)
			res := output.(result)
			switch op.Kind {
			case "W":
				newS := enc(&entry{dataFor(op), op.Count})
				if res.Err == "" {
					if kind == "memory" && s != "" {
						return nil // the memory store refuses to overwrite
					}
					return []interface{}{newS}
				}
				if res.Faulted {
					// A failed commit leaves the entry unchanged (a file
					// store may also have lost the previous entry's file).
					if s != "" {
						return []interface{}{s, ""}
					}
					return []interface{}{s}
				}
				if kind == "memory" && s != "" {
					return []interface{}{s}
				}
				// Concurrent writers of one key in the memory store: Create
				// may succeed for both and the second Commit fails.
				if kind == "memory" {
					return []interface{}{s}
				}
				return nil
			case "R":
				if res.Err != "" {
					if s == "" || res.Faulted {
						return []interface{}{s}
					}
					var cnt int64
					var data string
					splitState(s, &cnt, &data)
					if op.Offset > int64(len(data)) {
						return []interface{}{s}
					}
					return nil
				}
				if s == "" {
					return nil
				}
				var cnt int64
				var data string
				splitState(s, &cnt, &data)
				want := ""
				if op.Offset <= int64(len(data)) {
					want = data[op.Offset:]
				}
				if string(res.Data) != want {
					return nil
				}
				return []interface{}{s}
			case "S":
				if res.Err != "" {
					if s == "" || res.Faulted {
						return []interface{}{s}
					}
					return nil
				}
				if s == "" {
					return nil
				}
				var cnt int64
				var data string
				splitState(s, &cnt, &data)
				if res.Size != int64(len(data)) || res.Count != cnt {
					return nil
				}
				return []interface{}{s}
			case "D":
				if res.Err == "" {
					return []interface{}{""}
				}
				if res.Faulted {
					return []interface{}{s, ""}
				}
				if s == "" {
					return []interface{}{s}
				}
				return nil
			}
			return nil
		},
		Equal: func(a, b interface{}) bool { return a.(string) == b.(string) },
	}
	return nm.ToModel()
}

func splitState(s string, cnt *int64, data *string) {
	i := strings.IndexByte(s, '|')
	fmt.Sscanf(s[:i], "%d", cnt)
	*data = s[i+1:]
}

// --- retry reader ---

// Attempt scripts one OpenAt call of the simulated remote partition.
type Attempt struct {
	OpenErr   bool `json:"open_err,omitempty"`
	FailAfter int  `json:"fail_after,omitempty"` // serve this many bytes, then a read error (-1 = no failure)
	Chunk     int  `json:"chunk,omitempty"`      // short reads of this size
	EOFData   bool `json:"eof_data,omitempty"`   // return the last bytes together with io.EOF
	DataErr   bool `json:"data_err,omitempty"`   // return some bytes together with the error
}

// RetryCase is an explicit retry-reader case.
type RetryCase struct {
	Len      int       `json:"len"`
	Attempts []Attempt `json:"attempts"` // consumed in order; when exhausted, attempts succeed
	Bufs     []int     `json:"bufs"`     // consumer buffer sizes, cycled
}

type scriptedRC struct {
	data  []byte
	pos   int
	a     Attempt
	served int
}

func (s *scriptedRC) Read(p []byte) (int, error) {
	if s.a.FailAfter >= 0 && s.served >= s.a.FailAfter {
		if s.a.DataErr && s.pos < len(s.data) && len(p) > 0 {
			p[0] = s.data[s.pos] ^ 0xff // garbage that must not be delivered
			return 1, errors.New("injected read error (with data)")
		}
		return 0, errors.New("injected read error")
	}
	n := len(p)
	if s.a.Chunk > 0 && s.a.Chunk < n {
		n = s.a.Chunk
	}
	if s.a.FailAfter >= 0 && s.served+n > s.a.FailAfter {
		n = s.a.FailAfter - s.served
	}
	if n > len(s.data)-s.pos {
		n = len(s.data) - s.pos
	}
	copy(p, s.data[s.pos:s.pos+n])
	s.pos += n
	s.served += n
	if s.pos == len(s.data) && (s.a.EOFData || n == 0) {
		return n, io.EOF
	}
	return n, nil
}
func (s *scriptedRC) Close() error { return nil }

func retryLimit() int {
	p := exec.VerifRetryPolicy()
	for n := 0; n < 1000; n++ {
		if ok, _ := p.Retry(n); !ok {
			return n
		}
	}
	return -1
}

func runRetry(t *testing.T, c *Case) (o outcome) {
	o.probes = map[string]int{}
	rc := c.Retry
	data := dataFor(Op{Len: rc.Len, DSeed: 7})
	limit := retryLimit()
	defer func() {
		if e := recover(); e != nil {
			if o.class == "" {
				o.class, o.detail = "retry-panic", fmt.Sprint(e)
			}
		}
	}()
	synctest.Test(t, func(t *testing.T) {
		k := 0
		consecutive, maxConsecutive := 0, 0
		var offsets []int64
		open := func(ctx context.Context, offset int64) (io.ReadCloser, error) {
			a := Attempt{FailAfter: -1}
			if k < len(rc.Attempts) {
				a = rc.Attempts[k]
				if !a.OpenErr && a.FailAfter == 0 && !a.DataErr {
					// fail immediately on first read
				}
			}
			k++
			offsets = append(offsets, offset)
			if a.OpenErr {
				return nil, errors.New("injected open error")
			}
			if offset < 0 || offset > int64(len(data)) {
				return nil, fmt.Errorf("bad offset %d", offset)
			}
			return &scriptedRC{data: data, pos: int(offset), a: a}, nil
		}
		_ = consecutive
		_ = maxConsecutive
		r := exec.VerifNewRetryReader(context.Background(), open)
		var got []byte
		var rerr error
		for i := 0; ; i++ {
			bs := 1
			if len(rc.Bufs) > 0 {
				bs = rc.Bufs[i%len(rc.Bufs)]
			}
			if bs < 1 {
				bs = 1
			}
			buf := make([]byte, bs)
			n, err := r.Read(buf)
			if n < 0 || n > bs {
				o.class, o.detail = "bad-count", fmt.Sprintf("Read returned %d for a buffer of %d", n, bs)
				return
			}
			got = append(got, buf[:n]...)
			if err != nil {
				rerr = err
				break
			}
			if i > 100000 {
				o.class, o.detail = "no-end", "retry reader did not end"
				return
			}
		}
		r.Close()
		// Delivered bytes: exactly the stream, or a prefix followed by an error.
		if !bytes.HasPrefix(data, got) {
			o.class, o.detail = "gap-or-repeat", fmt.Sprintf("delivered %d bytes that are not a prefix of the %d-byte stream (first difference at %d; reopen offsets %v)", len(got), len(data), firstDiff(got, data), offsets)
			return
		}
		// Count the longest run of consecutive failed attempts in the script as consumed.
		run, maxRun := 0, 0
		for i := 0; i < k && i < len(rc.Attempts); i++ {
			a := rc.Attempts[i]
			progress := !a.OpenErr && (a.FailAfter < 0 || a.FailAfter > 0)
			if a.OpenErr || a.FailAfter >= 0 {
				if progress {
					run = 0 // it delivered bytes first: the budget is reset
				}
				run++
				if run > maxRun {
					maxRun = run
				}
			} else {
				run = 0
			}
		}
		if rerr == io.EOF {
			if len(got) != len(data) {
				o.class, o.detail = "short-stream", fmt.Sprintf("EOF after %d of %d bytes (reopen offsets %v)", len(got), len(data), offsets)
				return
			}
			if k > 1 {
				o.probes["resumed_after_failure"]++
			}
			for _, off := range offsets[1:] {
				if off > 0 {
					o.probes["resumed_at_offset_gt0"]++
					break
				}
			}
			return
		}
		// An error: only legitimate once the retry budget is exhausted.
		o.probes["gave_up"]++
		if maxRun < limit {
			o.class, o.detail = "gave-up-early", fmt.Sprintf("failed with %v after at most %d consecutive failures, the policy allows %d retries", rerr, maxRun, limit)
		}
	})
	return
}

func runCase(t *testing.T, c *Case) outcome {
	compkit.Journal(c)
	if os.Getenv("VERIF_TRACE") != "" {
		b, _ := json.Marshal(c)
		fmt.Fprintf(os.Stderr, "CASE %s\n", b)
	}
	switch c.Mode {
	case "seq":
		return runSeq(c)
	case "conc":
		return runConc(c)
	case "retry":
		return runRetry(t, c)
	}
	return outcome{class: "bad-case"}
}

// --- generation ---

func genOps(r compkit.Rand, n, keys int, store string) []Op {
	var ops []Op
	present := map[int]bool{}
	for i := 0; i < n; i++ {
		k := r.Intn(keys)
		switch x := r.Intn(10); {
		case x < 3 && !present[k]:
			op := Op{Kind: "W", Key: k, Len: r.Pick(0, 1, 5, 8, 9, 100, 5000), DSeed: r.Intn(1000), Count: int64(r.Intn(1000)), Chunk: r.Pick(0, 0, 1, 7, 64)}
			if op.Chunk > 0 && op.Len/op.Chunk > 20 {
				op.Chunk = op.Len / 20 // at most ~20 writes per entry
			}
			ops = append(ops, op)
			present[k] = true
		case x < 6:
			ops = append(ops, Op{Kind: "R", Key: k, Offset: int64(r.Pick(0, 0, 1, 3, 8, 50, 200))})
		case x < 8:
			ops = append(ops, Op{Kind: "S", Key: k})
		case x < 9:
			ops = append(ops, Op{Kind: "D", Key: k})
			delete(present, k)
		default:
			ops = append(ops, Op{Kind: "R", Key: k})
		}
	}
	return ops
}

type quiet struct{}

func (quiet) Level() log.Level                                      { return log.Off }
func (quiet) Output(calldepth int, level log.Level, s string) error { return nil }

func TestBatch(t *testing.T) {
	seed, tier, out, _ := compkit.Env()
	if out == "" {
		t.Skip("VERIF_OUT not set")
	}
	log.SetOutputter(quiet{})
	n, budget := 400, 60*time.Second
	if tier != "quick" {
		n, budget = 20000, 15*time.Minute
	}
	if v := os.Getenv("VERIF_N"); v != "" {
		fmt.Sscanf(v, "%d", &n)
	}
	if v := os.Getenv("VERIF_BUDGET_S"); v != "" {
		var s int
		fmt.Sscanf(v, "%d", &s)
		budget = time.Duration(s) * time.Second
	}
	start := time.Now()
	dl := compkit.Within(budget)
	res := &compkit.Result{Property: "C15", Engine: "comp-storesim", Probes: map[string]int{}, Faults: map[string]int{},
		Rule: "(a) sequential create/write/commit/open(offset)/stat/discard histories on the file store (over the simulated disk) and the memory store, checked op by op against a map model and verified at the end without faults; for every history a sweep re-runs it with an error at EVERY file operation of the fault-free run and a short write at every write; (b) 2-4 concurrent clients on 1-2 keys, stepped one file operation at a time by a seeded scheduler, histories (invoke/return stamped with event sequence numbers) checked with porcupine against a nondeterministic register model per key; (c) the retrying remote reader over a simulated opener (open errors, read errors after k bytes, errors that also return bytes, short reads, bytes-with-EOF) with a fake clock: exhaustive over failure positions for streams <= 12 bytes with <= 3 scripted failures, seeded beyond; oracle: delivered bytes are the stream or a prefix followed by an error, an error only after as many consecutive failures as the policy allows (limit read from the policy object); distinct = distinct case hashes",
		Stubs: []string{"real: exec fileStore, memoryStore, retryReader, base/file dispatch, base/retry", "stub: the disk (simfs), the remote partition (scripted opener), the clock (synctest)"},
	}
	distinct := map[string]bool{}
	seen := map[string]bool{}
	report := func(c *Case, o outcome, s uint64) {
		if o.class == "" || o.class == "bad-case" || seen[o.class+c.Mode+c.Store] {
			return
		}
		seen[o.class+c.Mode+c.Store] = true
		b, _ := json.Marshal(c)
		res.Violations = append(res.Violations, compkit.Violation{Class: o.class, Detail: o.detail, Seed: s, Case: b})
	}
	count := func(c *Case, o outcome) {
		res.Evaluations++
		distinct[compkit.Hash(c)] = true
		for k, v := range o.probes {
			res.Probes[k] += v
		}
		res.Probes["mode:"+c.Mode]++
	}
	// (c) exhaustive small retry cases, once per batch (process 0 only).
	if os.Getenv("VERIF_PROC") == "0" || os.Getenv("VERIF_PROC") == "" {
		for l := 0; l <= 12; l += 4 {
			var rec func(prefix []Attempt, depth int)
			rec = func(prefix []Attempt, depth int) {
				c := &Case{Mode: "retry", Retry: &RetryCase{Len: l, Attempts: append([]Attempt(nil), prefix...), Bufs: []int{1 + l%3, 5}}}
				o := runCase(t, c)
				count(c, o)
				res.Faults["scripted-read-failure"] += len(prefix)
				report(c, o, 0)
				if depth == 3 {
					return
				}
				for fa := 0; fa <= l; fa += 1 + l/6 {
					rec(append(prefix, Attempt{FailAfter: fa}), depth+1)
					rec(append(prefix, Attempt{FailAfter: fa, DataErr: true}), depth+1)
				}
				rec(append(prefix, Attempt{OpenErr: true, FailAfter: -1}), depth+1)
			}
			rec(nil, 0)
		}
		res.Probes["retry_exhaustive_done"]++
	}
	for i := 0; i < n && !dl.Passed(); i++ {
		s := compkit.Mix(seed, "C15", i)
		r := compkit.New(s)
		switch i % 4 {
		case 0, 1:
			store := []string{"file", "memory"}[r.Intn(2)]
			if i%4 == 0 {
				store = "file"
			}
			c := &Case{Mode: "seq", Store: store, Clients: [][]Op{genOps(r, 4+r.Intn(10), 3, store)}}
			o := runCase(t, c)
			count(c, o)
			report(c, o, s)
			if len(res.Samples) < 2 {
				res.Samples = append(res.Samples, c)
			}
			if o.class != "" || store != "file" {
				continue
			}
			// Sweep: a fault at every file operation of the fault-free run.
			occ := map[string]int{}
			for _, fop := range o.ops {
				key := fop.Op + "|" + fop.Path
				occ[key]++
				kinds := []string{"error"}
				if fop.Op == "write" {
					kinds = append(kinds, "short")
				}
				if fop.Op == "discard" {
					continue
				}
				for _, do := range kinds {
					x := *c
					// Paths carry a per-store prefix; match on the part after it.
					x.Faults = []*simfs.Fault{{Op: fop.Op, PathSub: fop.Path[strings.Index(fop.Path, "/op"):], Occ: occ[key], Do: do}}
					ox := runCase(t, &x)
					count(&x, ox)
					res.Faults["fs-"+do]++
					report(&x, ox, s)
				}
			}
			res.Probes["histories_swept"]++
		case 2:
			store := []string{"file", "memory"}[r.Intn(2)]
			nc := 2 + r.Intn(3)
			c := &Case{Mode: "conc", Store: store, Sched: r.Uint64() % 1000000}
			for k := 0; k < nc; k++ {
				c.Clients = append(c.Clients, genOps(r, 2+r.Intn(3), 1+r.Intn(2), store))
			}
			if store == "file" && r.Chance(0.4) {
				c.Faults = []*simfs.Fault{{Op: []string{"create", "write", "close", "open", "read", "stat", "seek", "remove"}[r.Intn(8)], Occ: 1 + r.Intn(4), Do: "error"}}
				res.Faults["fs-error"]++
			}
			o := runCase(t, c)
			count(c, o)
			report(c, o, s)
			if len(res.Samples) < 3 {
				res.Samples = append(res.Samples, c)
			}
		default:
			rc := &RetryCase{Len: r.Pick(0, 1, 5, 16, 100, 5000)}
			for k := 0; k < r.Intn(9); k++ {
				a := Attempt{FailAfter: -1, Chunk: r.Pick(0, 1, 3), EOFData: r.Chance(0.5)}
				switch r.Intn(4) {
				case 0:
					a.OpenErr = true
				case 1, 2:
					a.FailAfter = r.Intn(rc.Len + 1)
					a.DataErr = r.Chance(0.3)
				}
				rc.Attempts = append(rc.Attempts, a)
				if a.OpenErr || a.FailAfter >= 0 {
					res.Faults["scripted-read-failure"]++
				}
			}
			if r.Chance(0.25) {
				// A run of failures around the retry budget, after some progress.
				lim := retryLimit()
				rc.Attempts = []Attempt{{FailAfter: r.Intn(rc.Len + 1)}}
				for k := 0; k < lim-2+r.Intn(4); k++ {
					if r.Chance(0.5) {
						rc.Attempts = append(rc.Attempts, Attempt{OpenErr: true, FailAfter: -1})
					} else {
						rc.Attempts = append(rc.Attempts, Attempt{FailAfter: 0, DataErr: r.Chance(0.3)})
					}
				}
			}
			for k := 0; k < 1+r.Intn(3); k++ {
				rc.Bufs = append(rc.Bufs, r.Pick(1, 2, 7, 64, 4096))
			}
			c := &Case{Mode: "retry", Retry: rc}
			o := runCase(t, c)
			count(c, o)
			report(c, o, s)
		}
	}
	res.Distinct = len(distinct)
	res.WallS = time.Since(start).Seconds()
	if err := res.Write(out); err != nil {
		t.Fatal(err)
	}
}

func TestReplay(t *testing.T) {
	_, _, out, replay := compkit.Env()
	if replay == "" {
		t.Skip("VERIF_REPLAY not set")
	}
	log.SetOutputter(quiet{})
	b, err := os.ReadFile(replay)
	if err != nil {
		t.Fatal(err)
	}
	var c Case
	if err := json.Unmarshal(b, &c); err != nil {
		t.Fatal(err)
	}
	o := runCase(t, &c)
	res := &compkit.Result{Property: "C15", Engine: "comp-storesim", Evaluations: 1}
	if o.class != "" {
		res.Violations = []compkit.Violation{{Class: o.class, Detail: o.detail, Case: b}}
	}
	fmt.Println("class:", o.class, "detail:", o.detail)
	if out != "" {
		res.Write(out)
	}
}
