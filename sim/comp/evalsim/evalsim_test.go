// Package evalsim drives the real exec.Eval with a simulated Executor that
// decides every task outcome, stepping at quiescent points of a synctest
// bubble, and checks the evaluator's safety and progress properties (C03)
// over the recorded history.
package evalsim

import (
	"context"
	"encoding/json"
	"errors"
	"fmt"
	"net/http"
	"os"
	"sort"
	"sync"
	"testing"
	"testing/synctest"
	"time"

	"github.com/grailbio/base/eventlog"
	"github.com/grailbio/base/log"
	"github.com/grailbio/bigslice/exec"
	"github.com/grailbio/bigslice/sliceio"

	"verifsim/compkit"
)

// TaskSpec describes one task of a scenario graph.
type TaskSpec struct {
	// Deps: each dependency names a task (or the head of a group) by index.
	Deps []int `json:"deps,omitempty"`
	// Group: index of the first task of this task's phase (-1: none), and size.
	GroupHead int    `json:"group_head"`
	GroupSize int    `json:"group_size,omitempty"`
	Init      string `json:"init,omitempty"` // "", "ok", "lost", "err"
}

// Action is one decision of the simulated executor.
type Action struct {
	Kind    string `json:"kind"` // complete | lose | eval2 | cancel1
	Task    int    `json:"task,omitempty"`
	Outcome string `json:"outcome,omitempty"` // ok | lost | err
	Running bool   `json:"running,omitempty"` // pass through RUNNING first
}

// Scenario is an explicit, replayable case.
type Scenario struct {
	// Limit, if non-zero, is the give-up limit observed in earlier scenarios of the batch.
	Limit   int        `json:"limit,omitempty"`
	Tasks   []TaskSpec `json:"tasks"`
	Roots1  []int      `json:"roots1"`
	Roots2  []int      `json:"roots2,omitempty"`
	Actions []Action   `json:"actions"`
}

type simExec struct {
	mu     sync.Mutex
	handed []*exec.Task
}

func (*simExec) Name() string                 { return "sim" }
func (*simExec) Start(*exec.Session) func()   { return func() {} }
func (e *simExec) Run(t *exec.Task)           { e.mu.Lock(); e.handed = append(e.handed, t); e.mu.Unlock() }
func (*simExec) Reader(*exec.Task, int) sliceio.ReadCloser { panic("not used") }
func (*simExec) Discard(context.Context, *exec.Task)       {}
func (*simExec) Eventer() eventlog.Eventer                 { return eventlog.Nop{} }
func (*simExec) HandleDebug(*http.ServeMux)                {}

func (e *simExec) take() []*exec.Task {
	e.mu.Lock()
	defer e.mu.Unlock()
	o := e.handed
	e.handed = nil
	return o
}

type violation struct{ class, detail string }

// globalGiveUp is the give-up limit observed first in this process (0: none yet).
var globalGiveUp int

// world is the state of one scenario run.
type world struct {
	sc       *Scenario
	tasks    []*exec.Task
	index    map[*exec.Task]int
	seq      int
	out      map[int]bool  // handed out, awaiting an outcome
	everOK   map[int][]int // seq numbers at which the task became OK (or 0 for initial)
	notOKat  map[int][]int // seq numbers at which the task was observed/made not OK
	lastHand map[int]int   // seq of last hand-out
	consLost map[int]int
	viol     []violation
	history  []string
	fatal    map[int]int // tasks given a fatal outcome, at seq
	giveUpN  int
	probes   map[string]int
	single   bool // no second evaluation was started
}

func (w *world) violate(class, format string, args ...interface{}) {
	w.viol = append(w.viol, violation{class, fmt.Sprintf(format, args...)})
}

func build(sc *Scenario) []*exec.Task {
	tasks := make([]*exec.Task, len(sc.Tasks))
	for i := range sc.Tasks {
		tasks[i] = &exec.Task{Name: exec.TaskName{Op: fmt.Sprintf("t%d", i), Shard: 0, NumShard: 1}}
	}
	for i, ts := range sc.Tasks {
		if ts.GroupHead >= 0 && ts.GroupSize > 0 {
			var g []*exec.Task
			for k := 0; k < ts.GroupSize; k++ {
				g = append(g, tasks[ts.GroupHead+k])
			}
			tasks[i].Group = g
			tasks[i].Name = exec.TaskName{Op: fmt.Sprintf("g%d", ts.GroupHead), Shard: i - ts.GroupHead, NumShard: ts.GroupSize}
		}
	}
	for i, ts := range sc.Tasks {
		for _, d := range ts.Deps {
			tasks[i].Deps = append(tasks[i].Deps, exec.TaskDep{Head: tasks[d]})
		}
	}
	for i, ts := range sc.Tasks {
		switch ts.Init {
		case "ok":
			tasks[i].Set(exec.TaskOk)
		case "lost":
			tasks[i].Set(exec.TaskLost)
		case "err":
			tasks[i].Error(errors.New("left in error by an earlier evaluation"))
		}
	}
	return tasks
}

// depTasks returns the indices of all tasks task i depends on (groups expanded).
func (w *world) depTasks(i int) []int {
	var out []int
	for _, d := range w.sc.Tasks[i].Deps {
		ts := w.sc.Tasks[d]
		if ts.GroupHead >= 0 && ts.GroupSize > 0 {
			for k := 0; k < ts.GroupSize; k++ {
				out = append(out, ts.GroupHead+k)
			}
		} else {
			out = append(out, d)
		}
	}
	return out
}

func (w *world) okSince(i, since int) bool {
	for _, s := range w.everOK[i] {
		if s >= since {
			return true
		}
	}
	// OK before the window and never made not-OK since?
	lastOK, lastNot := -1, -1
	for _, s := range w.everOK[i] {
		if s > lastOK {
			lastOK = s
		}
	}
	for _, s := range w.notOKat[i] {
		if s > lastNot && s < since {
			lastNot = s
		}
	}
	return lastOK >= 0 && lastOK > lastNot && lastOK < since
}

// needed reports whether task i is reachable from roots.
func reachable(sc *Scenario, roots []int) map[int]bool {
	seen := map[int]bool{}
	var walk func(i int)
	walk = func(i int) {
		if seen[i] {
			return
		}
		seen[i] = true
		for _, d := range sc.Tasks[i].Deps {
			ts := sc.Tasks[d]
			if ts.GroupHead >= 0 && ts.GroupSize > 0 {
				for k := 0; k < ts.GroupSize; k++ {
					walk(ts.GroupHead + k)
				}
			} else {
				walk(d)
			}
		}
	}
	for _, r := range roots {
		walk(r)
	}
	return seen
}

type evalRun struct {
	id      int
	roots   []int
	start   int
	done    chan error
	ret     bool
	err     error
	cancel  context.CancelFunc
	cancelled bool
}

// run plays a scenario. If gen is non-nil, actions are generated (and
// recorded into sc.Actions); otherwise sc.Actions are replayed.
func run(t *testing.T, sc *Scenario, gen *compkit.Rand, maxSteps int) (w *world) {
	if sc.Limit != 0 {
		globalGiveUp = sc.Limit
	} else if gen != nil {
		sc.Limit = globalGiveUp
	}
	w = &world{sc: sc, out: map[int]bool{}, everOK: map[int][]int{}, notOKat: map[int][]int{}, lastHand: map[int]int{},
		consLost: map[int]int{}, fatal: map[int]int{}, probes: map[string]int{}, index: map[*exec.Task]int{}}
	replay := sc.Actions
	if gen != nil {
		sc.Actions = nil
	}
	defer func() { recover() }() // the bubble may end with parked goroutines
	synctest.Test(t, func(t *testing.T) {
		w.tasks = build(sc)
		for i, tk := range w.tasks {
			w.index[tk] = i
			if sc.Tasks[i].Init == "ok" {
				w.everOK[i] = append(w.everOK[i], 0)
			} else {
				w.notOKat[i] = append(w.notOKat[i], 0)
			}
		}
		ex := &simExec{}
		var evals []*evalRun
		startEval := func(roots []int) {
			ctx, cancel := context.WithCancel(context.Background())
			e := &evalRun{id: len(evals) + 1, roots: roots, start: w.seq, done: make(chan error, 1), cancel: cancel}
			var rt []*exec.Task
			for _, r := range roots {
				rt = append(rt, w.tasks[r])
			}
			evals = append(evals, e)
			go func() { e.done <- exec.Eval(ctx, ex, rt, nil) }()
		}
		w.single = true
		startEval(sc.Roots1)
		eval2Started := false
		drain := false
		for step := 0; ; step++ {
			synctest.Wait()
			w.seq++
			// Hand-outs.
			for _, tk := range ex.take() {
				i := w.index[tk]
				w.history = append(w.history, fmt.Sprintf("%d handout t%d", w.seq, i))
				w.checkHandout(i, evals)
				w.out[i] = true
				w.lastHand[i] = w.seq
			}
			// Collect returns.
			live := 0
			for _, e := range evals {
				if !e.ret {
					select {
					case err := <-e.done:
						e.ret, e.err = true, err
						w.history = append(w.history, fmt.Sprintf("%d eval%d returned %v", w.seq, e.id, err != nil))
						w.checkReturn(e)
					default:
						live++
					}
				}
			}
			// Observe evaluator-made state changes (give-up after n losses).
			for i, tk := range w.tasks {
				st := tk.State()
				if st == exec.TaskErr && w.fatal[i] == 0 && sc.Tasks[i].Init != "err" {
					// The evaluator gave up on this task.
					n := w.consLost[i]
					if n < 2 {
						w.violate("gave-up-early", "task t%d put in error by the evaluator after %d consecutive losses", i, n)
					} else if !w.single {
						// With two evaluations sharing the task only the one
						// that handed it out keeps the count, which the code
						// documents as approximate; no exact limit is required.
					} else if globalGiveUp == 0 {
						globalGiveUp = n
					} else if globalGiveUp != n {
						// The limit is one number for every task, in every scenario of this process.
						w.violate("give-up-limit-varies", "a task was given up after %d consecutive losses, another one (possibly in an earlier scenario) after %d", n, globalGiveUp)
					}
					w.fatal[i] = w.seq
					w.probes["gave_up_after_losses"]++
				}
			}
			if live == 0 {
				break
			}
			// Progress: an unreturned evaluation needs something in flight.
			if len(w.out) == 0 {
				w.violate("idle-with-work-outstanding", "at step %d: %d evaluation(s) have not returned, but no task is handed out awaiting an outcome", step, live)
				break
			}
			if step >= maxSteps {
				drain = true
			}
			// Next action.
			var a Action
			if gen == nil {
				if len(replay) == 0 {
					drain = true
				} else {
					a, replay = replay[0], replay[1:]
				}
			}
			if drain || gen != nil && false {
				a = Action{}
			}
			if gen != nil && !drain {
				a = w.generate(*gen, eval2Started, evals)
				sc.Actions = append(sc.Actions, a)
			}
			if drain {
				// Complete everything successfully until the evaluations end.
				ks := w.outKeys()
				a = Action{Kind: "complete", Task: ks[0], Outcome: "ok"}
				if step > maxSteps+400 {
					w.violate("no-termination", "evaluations still running %d steps after all outcomes became successes", step-maxSteps)
					break
				}
			}
			switch a.Kind {
			case "complete":
				if !w.out[a.Task] {
					continue // not applicable in this replay
				}
				tk := w.tasks[a.Task]
				if a.Running {
					tk.Set(exec.TaskRunning)
					synctest.Wait()
				}
				delete(w.out, a.Task)
				w.seq++
				switch a.Outcome {
				case "ok":
					w.everOK[a.Task] = append(w.everOK[a.Task], w.seq)
					w.consLost[a.Task] = 0
					tk.Set(exec.TaskOk)
				case "lost":
					w.notOKat[a.Task] = append(w.notOKat[a.Task], w.seq)
					w.consLost[a.Task]++
					tk.Set(exec.TaskLost)
					w.probes["outcome_lost"]++
				case "err":
					w.notOKat[a.Task] = append(w.notOKat[a.Task], w.seq)
					w.fatal[a.Task] = w.seq
					tk.Error(errors.New("injected fatal task error"))
					w.probes["outcome_fatal"]++
				}
				w.history = append(w.history, fmt.Sprintf("%d outcome t%d %s", w.seq, a.Task, a.Outcome))
			case "lose":
				tk := w.tasks[a.Task]
				if tk.State() != exec.TaskOk || w.out[a.Task] {
					continue
				}
				w.seq++
				w.notOKat[a.Task] = append(w.notOKat[a.Task], w.seq)
				tk.Set(exec.TaskLost)
				w.probes["completed_task_lost"]++
				w.history = append(w.history, fmt.Sprintf("%d lose t%d", w.seq, a.Task))
			case "eval2":
				if !eval2Started && len(sc.Roots2) > 0 {
					eval2Started = true
					w.single = false
					startEval(sc.Roots2)
					w.probes["second_evaluation"]++
					w.history = append(w.history, fmt.Sprintf("%d eval2 started", w.seq))
				}
			}
		}
		for _, e := range evals {
			e.cancel()
		}
	})
	return w
}

func (w *world) outKeys() []int {
	var ks []int
	for k := range w.out {
		ks = append(ks, k)
	}
	sort.Ints(ks)
	return ks
}

func (w *world) generate(r compkit.Rand, eval2Started bool, evals []*evalRun) Action {
	ks := w.outKeys()
	x := r.Intn(100)
	switch {
	case x < 6 && !eval2Started && len(w.sc.Roots2) > 0:
		return Action{Kind: "eval2"}
	case x < 16:
		// Lose an already completed task.
		var oks []int
		for i, tk := range w.tasks {
			if tk.State() == exec.TaskOk && !w.out[i] {
				oks = append(oks, i)
			}
		}
		if len(oks) > 0 {
			return Action{Kind: "lose", Task: oks[r.Intn(len(oks))]}
		}
	}
	a := Action{Kind: "complete", Task: ks[r.Intn(len(ks))], Running: r.Chance(0.5)}
	switch y := r.Intn(100); {
	case y < 70:
		a.Outcome = "ok"
	case y < 95:
		a.Outcome = "lost"
	default:
		a.Outcome = "err"
	}
	// Sometimes hammer one task with losses to reach the give-up limit.
	if r.Chance(0.08) {
		a.Outcome = "lost"
	}
	return a
}

func (w *world) checkHandout(i int, evals []*evalRun) {
	if w.out[i] {
		w.violate("handed-out-twice", "task t%d handed out again while its previous hand-out has no outcome yet", i)
	}
	// Window start: the earliest live evaluation's start, or the previous hand-out.
	since := -1
	for _, e := range evals {
		if !e.ret && (since < 0 || e.start < since) {
			since = e.start
		}
	}
	if since < 0 {
		since = 0
	}
	if lh, ok := w.lastHand[i]; ok && lh > since {
		since = lh
	}
	for _, d := range w.depTasks(i) {
		if !w.okSince(d, since) {
			w.violate("dependency-not-done", "task t%d handed out although its dependency t%d (state %v) has not been OK at any instant since seq %d", i, d, w.tasks[d].State(), since)
			return
		}
	}
	needed := false
	for _, e := range evals {
		if !e.ret && reachable(w.sc, e.roots)[i] {
			needed = true
		}
	}
	if !needed {
		w.violate("unneeded-task-run", "task t%d handed out although no live evaluation's roots depend on it", i)
	}
}

func (w *world) checkReturn(e *evalRun) {
	if e.err != nil {
		return
	}
	for _, r := range e.roots {
		if !w.okSince(r, e.start) {
			w.violate("success-without-roots-done", "evaluation %d returned nil although root t%d (state %v) was never OK since it started", e.id, r, w.tasks[r].State())
			return
		}
	}
	// With a single evaluation every hand-out is on its behalf: a fatal
	// outcome (or a give-up after repeated losses) must fail it.
	if w.single {
		for i, at := range w.fatal {
			if at >= e.start {
				w.violate("success-despite-fatal-task", "the evaluation returned nil although task t%d, which it ran, failed fatally (or was given up) at seq %d", i, at)
				return
			}
		}
	}
}

// --- generation ---

func genScenario(r compkit.Rand) *Scenario {
	sc := &Scenario{}
	nl := 1 + r.Intn(4)
	type layer struct{ first, n int }
	var layers []layer
	for l := 0; l < nl; l++ {
		n := r.Pick(1, 1, 2, 2, 3, 4)
		shuffle := l > 0 && r.Chance(0.45)
		if l > 0 && !shuffle {
			n = layers[l-1].n
		}
		first := len(sc.Tasks)
		for k := 0; k < n; k++ {
			ts := TaskSpec{GroupHead: -1}
			if l > 0 {
				prev := layers[l-1]
				if shuffle {
					ts.Deps = []int{prev.first}
				} else {
					ts.Deps = []int{prev.first + k}
				}
				// Occasionally a second dependency on an earlier layer (shared deps, diamonds).
				if l > 1 && r.Chance(0.25) {
					pp := layers[r.Intn(l-1)]
					ts.Deps = append(ts.Deps, pp.first+r.Intn(pp.n))
				}
			}
			sc.Tasks = append(sc.Tasks, ts)
		}
		if shuffle {
			// The previous layer becomes a phase (group).
			prev := layers[l-1]
			for k := 0; k < prev.n; k++ {
				sc.Tasks[prev.first+k].GroupHead = prev.first
				sc.Tasks[prev.first+k].GroupSize = prev.n
			}
		}
		layers = append(layers, layer{first, n})
	}
	// Dependencies on a grouped task must name the group head.
	for i := range sc.Tasks {
		for k, d := range sc.Tasks[i].Deps {
			if g := sc.Tasks[d]; g.GroupHead >= 0 && g.GroupSize > 0 {
				sc.Tasks[i].Deps[k] = g.GroupHead
			}
		}
		// de-duplicate
		seen := map[int]bool{}
		var ds []int
		for _, d := range sc.Tasks[i].Deps {
			if !seen[d] {
				seen[d] = true
				ds = append(ds, d)
			}
		}
		sc.Tasks[i].Deps = ds
	}
	last := layers[len(layers)-1]
	for k := 0; k < last.n; k++ {
		sc.Roots1 = append(sc.Roots1, last.first+k)
	}
	if r.Chance(0.3) && len(layers) > 1 {
		// multi-root: also a task of an earlier layer
		pl := layers[r.Intn(len(layers)-1)]
		sc.Roots1 = append(sc.Roots1, pl.first+r.Intn(pl.n))
	}
	if r.Chance(0.5) {
		// a second evaluation over overlapping roots
		l2 := layers[r.Intn(len(layers))]
		grouped := sc.Tasks[l2.first].GroupSize > 0
		for k := 0; k < l2.n; k++ {
			// Members of a shuffle phase are only ever needed together.
			if grouped || r.Chance(0.7) {
				sc.Roots2 = append(sc.Roots2, l2.first+k)
			}
		}
	}
	// Initial states as earlier evaluations can leave them.
	if r.Chance(0.5) {
		for i := range sc.Tasks {
			switch x := r.Intn(20); {
			case x < 6:
				sc.Tasks[i].Init = "ok"
			case x < 8:
				sc.Tasks[i].Init = "lost"
			case x < 9:
				sc.Tasks[i].Init = "err"
			}
		}
		// A task can only have been OK if its dependencies were once OK; no constraint now
		// (they may have been lost since), so any combination is reachable.
	}
	return sc
}

func first(w *world) (string, string) {
	if len(w.viol) == 0 {
		return "", ""
	}
	return w.viol[0].class, w.viol[0].detail
}

func shrink(t *testing.T, sc *Scenario, class string) *Scenario {
	cur := cloneSc(sc)
	try := func(c *Scenario) bool {
		w := run(t, cloneSc(c), nil, len(c.Actions)+5)
		cl, _ := first(w)
		return cl == class
	}
	for changed := true; changed; {
		changed = false
		for i := len(cur.Actions) - 1; i >= 0; i-- {
			c := cloneSc(cur)
			c.Actions = append(c.Actions[:i], c.Actions[i+1:]...)
			if try(c) {
				cur, changed = c, true
			}
		}
		for i := range cur.Tasks {
			if cur.Tasks[i].Init != "" {
				c := cloneSc(cur)
				c.Tasks[i].Init = ""
				if try(c) {
					cur, changed = c, true
				}
			}
		}
		if len(cur.Roots2) > 0 {
			c := cloneSc(cur)
			c.Roots2 = nil
			if try(c) {
				cur, changed = c, true
			}
		}
		for i := range cur.Actions {
			if cur.Actions[i].Running {
				c := cloneSc(cur)
				c.Actions[i].Running = false
				if try(c) {
					cur, changed = c, true
				}
			}
		}
	}
	return cur
}

func cloneSc(sc *Scenario) *Scenario {
	b, _ := json.Marshal(sc)
	var c Scenario
	json.Unmarshal(b, &c)
	return &c
}

type quiet struct{}

func (quiet) Level() log.Level                                { return log.Off }
func (quiet) Output(calldepth int, level log.Level, s string) error { return nil }

// TestBatch runs a seeded batch of scenarios and writes a compkit.Result.
func TestBatch(t *testing.T) {
	seed, tier, out, _ := compkit.Env()
	if out == "" {
		t.Skip("VERIF_OUT not set")
	}
	log.SetOutputter(quiet{})
	n := 6000
	budget := 60 * time.Second
	if tier != "quick" {
		n = 200000
		budget = 15 * time.Minute
	}
	if v := os.Getenv("VERIF_N"); v != "" {
		fmt.Sscanf(v, "%d", &n)
	}
	if v := os.Getenv("VERIF_BUDGET_S"); v != "" {
		var sec int
		fmt.Sscanf(v, "%d", &sec)
		budget = time.Duration(sec) * time.Second
	}
	start := time.Now()
	dl := compkit.Within(budget)
	res := &compkit.Result{Property: "C03", Engine: "comp-evalsim", Probes: map[string]int{}, Faults: map[string]int{},
		Rule: "seeded task graphs of up to 4 layers x 4 tasks (chains, diamonds, shared dependencies, shuffle phases with task groups, multi-root) with initial states as earlier evaluations leave them (INIT/OK/LOST/ERR), driven through the real exec.Eval by a simulated Executor that, at every quiescent point of a synctest bubble, decides the next event from the seed: complete a handed-out task with OK / LOST / fatal error (optionally via RUNNING), lose an already completed task, start a second evaluation over overlapping roots; then all outcomes become successes (drain); oracles over the recorded history: dependencies were OK in the window before every hand-out, no task handed out twice at once, only needed tasks run, nil only if every root was OK, give-up limit >= 2 and the same for all tasks, something is always in flight while an evaluation has not returned, termination after the drain; distinct = distinct (graph, history) hashes; non-trivial = at least one hand-out",
		Stubs: []string{"real: exec.Eval, exec.state, exec.Task (state machine, subscribers, condition variables)", "stub: Executor (the simulator decides every outcome), clock (synctest)"},
	}
	distinct := map[string]bool{}
	classesSeen := map[string]bool{}
	for i := 0; i < n && !dl.Passed(); i++ {
		s := compkit.Mix(seed, "C03", i)
		r := compkit.New(s)
		sc := genScenario(r)
		w := run(t, sc, &r, 10+r.Intn(50))
		res.Evaluations++
		if len(w.history) > 0 {
			distinct[compkit.Hash([]any{sc.Tasks, sc.Roots1, sc.Roots2, w.history})] = true
		}
		for k, v := range w.probes {
			res.Probes[k] += v
		}
		res.Faults["task-lost"] += w.probes["outcome_lost"] + w.probes["completed_task_lost"]
		res.Faults["task-fatal"] += w.probes["outcome_fatal"]
		if len(res.Samples) < 3 {
			res.Samples = append(res.Samples, map[string]any{"scenario": sc, "history": w.history})
		}
		if cl, detail := first(w); cl != "" && !classesSeen[cl] {
			classesSeen[cl] = true
			min := shrink(t, sc, cl)
			w2 := run(t, cloneSc(min), nil, len(min.Actions)+5)
			if cl2, d2 := first(w2); cl2 == cl {
				detail = d2
			} else {
				min = sc
			}
			b, _ := json.Marshal(min)
			res.Violations = append(res.Violations, compkit.Violation{Class: cl, Detail: detail, Seed: s, Case: b})
		}
	}
	res.Distinct = len(distinct)
	res.WallS = time.Since(start).Seconds()
	if err := res.Write(out); err != nil {
		t.Fatal(err)
	}
}

// TestReplay replays one scenario file.
func TestReplay(t *testing.T) {
	_, _, out, replay := compkit.Env()
	if replay == "" {
		t.Skip("VERIF_REPLAY not set")
	}
	log.SetOutputter(quiet{})
	b, err := os.ReadFile(replay)
	if err != nil {
		t.Fatal(err)
	}
	var sc Scenario
	if err := json.Unmarshal(b, &sc); err != nil {
		t.Fatal(err)
	}
	w := run(t, &sc, nil, len(sc.Actions)+5)
	cl, detail := first(w)
	res := &compkit.Result{Property: "C03", Engine: "comp-evalsim", Evaluations: 1}
	if cl != "" {
		res.Violations = []compkit.Violation{{Class: cl, Detail: detail, Case: b}}
	}
	for _, h := range w.history {
		fmt.Println(h)
	}
	if out != "" {
		res.Write(out)
	}
}
