// Package mgrsim drives the real machine manager (machineManager.Do) over the
// simulated bigmachine system with seeded histories of offer / cancel / done
// (ok, remote error, transport error) / machine-stop / time-advance events
// under a fake clock, and checks capacity, probation, conservation and
// ordering properties from grants and returns only (C14).
package mgrsim

import (
	"encoding/json"
	"fmt"
	"os"
	"sort"
	"sync"
	"testing"
	"testing/synctest"
	"time"

	"github.com/grailbio/base/errors"
	"github.com/grailbio/base/log"
	"github.com/grailbio/bigslice/exec"

	"verifsim/compkit"
	"verifsim/simnet"
)

// Event is one step of a manager history.
type Event struct {
	Kind     string `json:"kind"` // offer | cancel | done | kill | advance | drain
	Priority int    `json:"priority,omitempty"`
	Procs    int    `json:"procs,omitempty"`
	Req      int    `json:"req,omitempty"`     // cancel/done: index of the offer event
	Outcome  string `json:"outcome,omitempty"` // done: ok | remote | transport
	Machine  int    `json:"machine,omitempty"` // kill: index into the live machines (mod)
	Dur      int64  `json:"dur,omitempty"`     // advance: nanoseconds
}

// Case is an explicit manager history.
type Case struct {
	MachProcs   int     `json:"machprocs"`
	MaxLoad     float64 `json:"maxload"`
	Parallelism int     `json:"parallelism"`
	MaxMachines int     `json:"max_machines,omitempty"`
	Events      []Event `json:"events"`
}

type request struct {
	idx      int
	priority int
	procs    int
	ch       <-chan exec.VerifMachine
	cancel   func()
	granted  bool
	mach     exec.VerifMachine
	returned bool
	canceled bool
	offeredAt time.Time
	// arrived/at are set by a receiver goroutine at the (fake) instant of the grant.
	mu      sync.Mutex
	arrived bool
	at      time.Time
	got     exec.VerifMachine
}

type outcome struct {
	class, detail string
	probes        map[string]int
	hist          []string
}

func capacity(c *Case) int {
	n := int(float64(c.MachProcs) * c.MaxLoad)
	if n < 1 {
		n = 1
	}
	return n
}

func runCase(t *testing.T, c *Case) (o outcome) {
	compkit.Journal(c)
	o.probes = map[string]int{}
	defer func() {
		if e := recover(); e != nil && o.class == "" {
			msg := fmt.Sprint(e)
			if len(msg) > 9 && msg[:9] == "deadlock:" {
				return // leftover manager goroutines at the end of the bubble
			}
			o.class, o.detail = "manager-panic", msg
		}
	}()
	capa := capacity(c)
	synctest.Test(t, func(t *testing.T) {
		probation := exec.ProbationTimeout
		keepalive := [3]time.Duration{5 * time.Second, 15 * time.Second, 2 * time.Second}
		sys := simnet.New(simnet.Config{Procs: c.MachProcs, Keepalive: keepalive, DelayProfile: "ns", DelaySeed: 1, MaxMachines: c.MaxMachines})
		mgr := exec.VerifNewManager(sys, c.Parallelism, c.MaxLoad)
		t0 := time.Now()
		var reqs []*request
		byEvent := map[int]*request{}
		load := map[string]int{}        // machine -> procs granted and not returned
		probUntil := map[string]time.Time{} // machine -> no grants before (unless a success)
		deadSince := map[string]time.Time{}
		peakOutstanding, outstanding := 0, 0
		violate := func(class, format string, args ...interface{}) {
			if o.class == "" {
				o.class, o.detail = class, fmt.Sprintf(format, args...)
			}
		}
		note := func(format string, args ...interface{}) {
			o.hist = append(o.hist, fmt.Sprintf("%v ", time.Since(t0))+fmt.Sprintf(format, args...))
		}
		// collect gathers grants that have arrived.
		collect := func() {
			synctest.Wait()
			var fresh []*request
			for _, r := range reqs {
				if r.granted {
					continue
				}
				r.mu.Lock()
				if r.arrived {
					r.granted, r.mach = true, r.got
					fresh = append(fresh, r)
				}
				r.mu.Unlock()
			}
			sort.Slice(fresh, func(i, j int) bool { return fresh[i].at.Before(fresh[j].at) })
			for _, r := range fresh {
				addr := r.mach.Addr()
				load[addr] += r.procs
				note("grant req%d (prio %d, %d procs) on %s load=%d/%d", r.idx, r.priority, r.procs, addr, load[addr], capa)
				if load[addr] > capa {
					violate("oversubscribed", "machine %s has %d procs assigned, capacity is %d (request %d of %d procs)", addr, load[addr], capa, r.idx, r.procs)
				}
				if until, ok := probUntil[addr]; ok && r.at.Before(until) {
					violate("granted-on-probation", "machine %s was granted request %d at %v although a transport error was reported on it and neither a success nor the probation timeout (until %v) has passed", addr, r.idx, time.Since(t0), until.Sub(t0))
				}
				if since, ok := deadSince[addr]; ok && r.at.Sub(since) > keepalive[1]+keepalive[2]+keepalive[0]+time.Second {
					violate("granted-on-dead-machine", "machine %s was granted request %d %v after it was stopped (keepalive period %v, timeout %v)", addr, r.idx, r.at.Sub(since), keepalive[0], keepalive[1])
				}
				if r.canceled {
					// Granted in a race with the cancellation: hand it straight back.
					r.mach.Done(r.procs, nil)
					load[addr] -= r.procs
					r.returned = true
					outstanding -= r.procs
					o.probes["grant_raced_cancel"]++
				}
			}
			// Ordering, only where the wording leaves one answer: exactly one
			// machine exists, one grant was made in this step, and every
			// queued request would have fit the capacity that was free.
			if len(fresh) == 1 {
				all, alive := sys.Machines()
				_ = all
				if len(alive) == 1 {
					g := fresh[0]
					free := capa - (load[g.mach.Addr()] - g.procs)
					fits := true
					var queued []*request
					for _, r := range reqs {
						if r != g && !r.granted && !r.canceled {
							queued = append(queued, r)
							if r.procs > free {
								fits = false
							}
						}
					}
					if fits && len(queued) > 0 {
						o.probes["ordering_checked"]++
						for _, r := range queued {
							if r.priority < g.priority || (r.priority == g.priority && r.procs > g.procs) {
								violate("grant-order", "request %d (priority %d, %d procs) was granted before request %d (priority %d, %d procs) although both fit the %d free procs", g.idx, g.priority, g.procs, r.idx, r.priority, r.procs, free)
							}
						}
					}
				}
			}
		}
		for ei, ev := range c.Events {
			switch ev.Kind {
			case "offer":
				procs := ev.Procs
				if procs < 1 {
					procs = 1
				}
				if procs > capa {
					procs = capa
				}
				ch, cancel := mgr.Offer(ev.Priority, procs)
				r := &request{idx: ei, priority: ev.Priority, procs: procs, ch: ch, cancel: cancel, offeredAt: time.Now()}
				go func() {
					m := <-ch
					r.mu.Lock()
					r.arrived, r.at, r.got = true, time.Now(), m
					r.mu.Unlock()
				}()
				reqs = append(reqs, r)
				byEvent[ei] = r
				outstanding += procs
				if outstanding > peakOutstanding {
					peakOutstanding = outstanding
				}
				note("offer req%d prio %d procs %d", ei, ev.Priority, procs)
			case "cancel":
				r := byEvent[ev.Req]
				if r == nil || r.granted || r.canceled {
					continue
				}
				r.canceled = true
				r.cancel()
				outstanding -= r.procs
				note("cancel req%d", r.idx)
			case "done":
				r := byEvent[ev.Req]
				if r == nil || !r.granted || r.returned {
					continue
				}
				var err error
				switch ev.Outcome {
				case "remote":
					err = errors.E(errors.Remote, "task failed on the machine")
				case "transport":
					err = errors.E(errors.Net, errors.Temporary, "connection reset")
				}
				addr := r.mach.Addr()
				r.mach.Done(r.procs, err)
				r.returned = true
				load[addr] -= r.procs
				outstanding -= r.procs
				switch ev.Outcome {
				case "transport":
					probUntil[addr] = time.Now().Add(probation)
					o.probes["transport_error_reported"]++
				case "ok", "":
					delete(probUntil, addr)
				}
				note("done req%d on %s outcome %s", r.idx, addr, ev.Outcome)
			case "kill":
				_, alive := sys.Machines()
				if len(alive) == 0 {
					continue
				}
				name := alive[ev.Machine%len(alive)]
				sys.Kill(name)
				deadSince["http://"+name] = time.Now()
				o.probes["machine_killed"]++
				note("kill %s", name)
			case "advance":
				time.Sleep(time.Duration(ev.Dur))
				note("advance %v", time.Duration(ev.Dur))
			}
			collect()
			if o.class != "" {
				return
			}
		}
		// Drain: return everything that is granted, cancel what is queued, let time pass.
		for _, r := range reqs {
			if r.granted && !r.returned {
				r.mach.Done(r.procs, nil)
				load[r.mach.Addr()] -= r.procs
				r.returned = true
				delete(probUntil, r.mach.Addr())
			} else if !r.granted && !r.canceled {
				r.canceled = true
				r.cancel()
			}
		}
		collect()
		time.Sleep(probation + time.Minute)
		collect()
		if o.class != "" {
			return
		}
		all, alive := sys.Machines()
		// No more machines than demand and the parallelism limit justify.
		want := peakOutstanding
		if c.Parallelism < want {
			want = c.Parallelism
		}
		maxMachines := (want+capa-1)/capa + (len(all) - len(alive))
		if len(all) > maxMachines {
			violate("too-many-machines", "%d machines were started (%d stopped) for a peak demand of %d procs, parallelism %d, capacity %d per machine", len(all), len(all)-len(alive), peakOutstanding, c.Parallelism, capa)
			return
		}
		// Conservation: the full capacity of every live machine can be granted
		// again without a new machine being started.
		if len(alive) > 0 {
			var probe []*request
			for i := 0; i < len(alive)*capa; i++ {
				ch, cancel := mgr.Offer(0, 1)
				probe = append(probe, &request{idx: 1000 + i, procs: 1, ch: ch, cancel: cancel})
			}
			synctest.Wait()
			time.Sleep(2 * time.Second)
			synctest.Wait()
			granted := 0
			perMachine := map[string]int{}
			for _, r := range probe {
				select {
				case m := <-r.ch:
					r.granted, r.mach = true, m
					granted++
					perMachine[m.Addr()]++
				default:
				}
			}
			all2, _ := sys.Machines()
			want := len(alive) * capa
			if c.Parallelism < want {
				// Demand above the parallelism limit need not be served by new machines,
				// but existing capacity must still be handed out.
			}
			if granted < want && len(all2) == len(all) {
				violate("capacity-leaked", "after every grant was returned, only %d of the %d procs of the %d live machines could be granted again (%v)", granted, want, len(alive), perMachine)
				return
			}
			if granted < want {
				// New machines were started although existing capacity should have sufficed.
				violate("capacity-leaked", "after every grant was returned, %d of %d procs were granted and %d new machine(s) started: capacity of live machines was not reusable", granted, want, len(all2)-len(all))
				return
			}
			o.probes["conservation_probe_ok"]++
		}
	})
	return
}

func genCase(r compkit.Rand) *Case {
	c := &Case{MachProcs: r.Pick(1, 2, 4, 8), MaxLoad: []float64{0.95, 1.0, 0.5, 0.3, 0.05}[r.Intn(5)], Parallelism: r.Pick(1, 2, 4, 8, 16)}
	if r.Chance(0.3) {
		c.MaxMachines = 1 // single-machine histories make the ordering clause applicable
		c.Parallelism = capacity(c)
	}
	n := 5 + r.Intn(40)
	var offers []int
	if c.MaxMachines == 0 && r.Chance(0.3) {
		// Several machines on probation at once, then one of them dies (not
		// necessarily the one that failed first), then the probation timeout passes.
		k := 2 + r.Intn(2)
		if c.Parallelism < k*capacity(c) {
			c.Parallelism = k * capacity(c)
		}
		for i := 0; i < k; i++ {
			c.Events = append(c.Events, Event{Kind: "offer", Priority: 1, Procs: capacity(c)})
			offers = append(offers, len(c.Events)-1)
		}
		for i := 0; i < k; i++ {
			c.Events = append(c.Events, Event{Kind: "done", Req: offers[i], Outcome: "transport"})
			if r.Chance(0.5) {
				c.Events = append(c.Events, Event{Kind: "advance", Dur: int64(time.Duration(r.Pick(1, 5, 10)) * time.Second)})
			}
		}
		c.Events = append(c.Events, Event{Kind: "kill", Machine: r.Intn(k)})
		c.Events = append(c.Events, Event{Kind: "advance", Dur: int64(time.Duration(r.Pick(20, 31, 60)) * time.Second)})
	}
	for i := 0; i < n; i++ {
		switch x := r.Intn(20); {
		case x < 8 || len(offers) == 0:
			c.Events = append(c.Events, Event{Kind: "offer", Priority: r.Pick(0, 1, 1, 2, 5), Procs: r.Pick(1, 1, 1, 2, 3, 8)})
			offers = append(offers, len(c.Events)-1)
		case x < 14:
			out := "ok"
			switch y := r.Intn(10); {
			case y < 2:
				out = "remote"
			case y < 4:
				out = "transport"
			}
			c.Events = append(c.Events, Event{Kind: "done", Req: offers[r.Intn(len(offers))], Outcome: out})
		case x < 15:
			c.Events = append(c.Events, Event{Kind: "cancel", Req: offers[r.Intn(len(offers))]})
		case x < 16:
			c.Events = append(c.Events, Event{Kind: "kill", Machine: r.Intn(8)})
		default:
			c.Events = append(c.Events, Event{Kind: "advance", Dur: int64(time.Duration(r.Pick(1, 5, 20, 31, 60, 200)) * time.Second)})
		}
	}
	return c
}

func shrink(t *testing.T, c *Case, class string) *Case {
	cur := clone(c)
	for changed := true; changed; {
		changed = false
		for i := len(cur.Events) - 1; i >= 0; i-- {
			x := clone(cur)
			x.Events = append(x.Events[:i], x.Events[i+1:]...)
			// Re-index references.
			ok := true
			for k := range x.Events {
				if x.Events[k].Kind == "done" || x.Events[k].Kind == "cancel" {
					switch {
					case x.Events[k].Req == i:
						ok = false
					case x.Events[k].Req > i:
						x.Events[k].Req--
					}
				}
			}
			if !ok {
				continue
			}
			if runCase(t, x).class == class {
				cur, changed = x, true
			}
		}
	}
	return cur
}

func clone(c *Case) *Case {
	b, _ := json.Marshal(c)
	var x Case
	json.Unmarshal(b, &x)
	return &x
}

type quiet struct{}

func (quiet) Level() log.Level                                      { return log.Off }
func (quiet) Output(calldepth int, level log.Level, s string) error { return nil }

func TestBatch(t *testing.T) {
	seed, tier, out, _ := compkit.Env()
	if out == "" {
		t.Skip("VERIF_OUT not set")
	}
	log.SetOutputter(quiet{})
	n, budget := 300, 60*time.Second
	if tier != "quick" {
		n, budget = 20000, 15*time.Minute
	}
	if v := os.Getenv("VERIF_N"); v != "" {
		fmt.Sscanf(v, "%d", &n)
	}
	if v := os.Getenv("VERIF_BUDGET_S"); v != "" {
		var s int
		fmt.Sscanf(v, "%d", &s)
		budget = time.Duration(s) * time.Second
	}
	start := time.Now()
	dl := compkit.Within(budget)
	res := &compkit.Result{Property: "C14", Engine: "comp-mgrsim", Probes: map[string]int{}, Faults: map[string]int{},
		Rule: "the real machineManager.Do over the simulated bigmachine system (real bigmachine B, supervisor and keepalive; fake clock), driven by seeded histories of 5-45 events: offer(priority, procs), cancel, done(ok | remote error | transport error), machine kill, time advance across the probation timeout, for machine sizes 1-8, max-load 0.05-1.0 and parallelism 1-16 (some single-machine configurations); oracles from grants and returns only: per machine granted-returned <= floor(procs*maxload) (>=1) at all times, no grant on a machine with an unresolved transport error before a success or the probation timeout, none on a machine dead for longer than the keepalive timeout, in single-machine steps where every queued request fits the free capacity the grant goes to the lowest priority value and then the largest request, after everything is returned the full capacity of every live machine can be granted again without new machines, machines started <= ceil(min(peak demand, parallelism)/capacity) + stopped; distinct = distinct case hashes. The whole-system capacity monitor (offered/returned yield points) additionally rides on cluster runs, see coverage.whole_system.",
		Stubs: []string{"real: exec.machineManager (Do, Offer, schedule), sliceMachine, bigmachine B/Machine/keepalive/supervisor over the simulated transport", "stub: the tasks (the simulator returns procs with chosen outcomes), clock (synctest), transport (simnet)"},
	}
	distinct := map[string]bool{}
	seen := map[string]bool{}
	for i := 0; i < n && !dl.Passed(); i++ {
		s := compkit.Mix(seed, "C14", i)
		c := genCase(compkit.New(s))
		o := runCase(t, c)
		res.Evaluations++
		distinct[compkit.Hash(c)] = true
		for k, v := range o.probes {
			res.Probes[k] += v
		}
		for _, ev := range c.Events {
			switch {
			case ev.Kind == "kill":
				res.Faults["machine-kill"]++
			case ev.Kind == "done" && ev.Outcome == "transport":
				res.Faults["transport-error"]++
			case ev.Kind == "done" && ev.Outcome == "remote":
				res.Faults["remote-error"]++
			}
		}
		if len(res.Samples) < 2 {
			res.Samples = append(res.Samples, map[string]any{"case": c, "history": o.hist})
		}
		if o.class != "" && !seen[o.class] {
			seen[o.class] = true
			m := shrink(t, c, o.class)
			o2 := runCase(t, m)
			if o2.class != o.class {
				m, o2 = c, o
			}
			b, _ := json.Marshal(m)
			res.Violations = append(res.Violations, compkit.Violation{Class: o.class, Detail: o2.detail, Seed: s, Case: b})
		}
	}
	res.Distinct = len(distinct)
	res.WallS = time.Since(start).Seconds()
	if err := res.Write(out); err != nil {
		t.Fatal(err)
	}
	_ = sort.Ints
}

func TestReplay(t *testing.T) {
	_, _, out, replay := compkit.Env()
	if replay == "" {
		t.Skip("VERIF_REPLAY not set")
	}
	log.SetOutputter(quiet{})
	b, err := os.ReadFile(replay)
	if err != nil {
		t.Fatal(err)
	}
	var c Case
	if err := json.Unmarshal(b, &c); err != nil {
		t.Fatal(err)
	}
	o := runCase(t, &c)
	res := &compkit.Result{Property: "C14", Engine: "comp-mgrsim", Evaluations: 1}
	if o.class != "" {
		res.Violations = []compkit.Violation{{Class: o.class, Detail: o.detail, Case: b}}
	}
	for _, h := range o.hist {
		fmt.Println(h)
	}
	fmt.Println("class:", o.class, "detail:", o.detail)
	if out != "" {
		res.Write(out)
	}
}
