// Package scopesim steps logical threads through metrics.Scope operations one
// yield point at a time (the yield points sit around the load/CAS operations
// that create a scope's storage and instances) under a seeded scheduler, and
// checks the recorded history with porcupine; it also checks the merge / reset
// / gob laws over seeded scopes (C20).
package scopesim

import (
	"bytes"
	"encoding/gob"
	"encoding/json"
	"fmt"
	"os"
	"sync"
	"testing"
	"time"

	"github.com/anishathalye/porcupine"
	"github.com/grailbio/bigslice/exec"
	"github.com/grailbio/bigslice/metrics"

	"verifsim/compkit"
)

const nCounters = 3

var counters [nCounters]metrics.Counter

func init() {
	for i := range counters {
		counters[i] = metrics.NewCounter()
	}
}

// Op is one scope operation.
type Op struct {
	Kind    string `json:"kind"` // incr | value | merge
	Scope   int    `json:"scope"`
	Counter int    `json:"counter,omitempty"`
	N       int64  `json:"n,omitempty"`
	Src     int    `json:"src,omitempty"` // merge: index of a frozen source scope
}

// Case is an explicit scope case.
type Case struct {
	Mode    string      `json:"mode"` // conc | laws
	Threads [][]Op      `json:"threads,omitempty"`
	Sources [][]int64   `json:"sources,omitempty"` // frozen source scopes: counter values
	Sched   uint64      `json:"sched,omitempty"`
	Laws    *LawCase    `json:"laws,omitempty"`
}

// LawCase describes a sequential merge/reset/gob scenario.
type LawCase struct {
	A []int64 `json:"a"` // counter values of scope a (-1: counter never touched)
	B []int64 `json:"b"`
	Steps []string `json:"steps"` // merge_ab | reset_a_nil | reset_a_b | gob_a | incr_a
}

type outcome struct {
	class, detail string
	probes        map[string]int
}

type histOp struct {
	thread int
	op     Op
	out    int64
	call   int64
	ret    int64
}

type kinput struct {
	kind string
	n    int64
}

func runConc(c *Case) (o outcome) {
	o.probes = map[string]int{}
	defer func() {
		if e := recover(); e != nil {
			o.class, o.detail = "scope-panic", fmt.Sprint(e)
		}
	}()
	scopes := make([]*metrics.Scope, 2)
	for i := range scopes {
		scopes[i] = new(metrics.Scope)
	}
	var sources []*metrics.Scope
	for _, vals := range c.Sources {
		s := new(metrics.Scope)
		for ci, v := range vals {
			if v >= 0 && ci < nCounters {
				counters[ci].Incr(s, v)
			}
		}
		sources = append(sources, s)
	}
	r := compkit.New(c.Sched)
	type client struct {
		id   int
		turn chan struct{}
	}
	var (
		mu      sync.Mutex
		seq     int64
		current *client
		parked  = make(chan *client)
		hist    []histOp
	)
	next := func() int64 { mu.Lock(); seq++; s := seq; mu.Unlock(); return s }
	exec.VerifSetYield(func(point, key string) {
		mu.Lock()
		cl := current
		mu.Unlock()
		if cl == nil {
			return
		}
		o.probes["yield:"+point]++
		parked <- cl
		<-cl.turn
	})
	defer exec.VerifSetYield(nil)
	clients := make([]*client, len(c.Threads))
	done := make([]bool, len(c.Threads))
	finished := make(chan int)
	for i := range c.Threads {
		clients[i] = &client{id: i, turn: make(chan struct{})}
		go func(i int) {
			cl := clients[i]
			<-cl.turn
			for _, op := range c.Threads[i] {
				call := next()
				var out int64
				sc := scopes[op.Scope%len(scopes)]
				switch op.Kind {
				case "incr":
					counters[op.Counter%nCounters].Incr(sc, op.N)
				case "value":
					out = counters[op.Counter%nCounters].Value(sc)
				case "merge":
					if len(sources) > 0 {
						sc.Merge(sources[op.Src%len(sources)])
					}
				}
				ret := next()
				mu.Lock()
				hist = append(hist, histOp{i, op, out, call, ret})
				mu.Unlock()
				parked <- cl
				<-cl.turn
			}
			finished <- i
		}(i)
	}
	live := len(clients)
	for live > 0 {
		var cand []int
		for i := range clients {
			if !done[i] {
				cand = append(cand, i)
			}
		}
		i := cand[r.Intn(len(cand))]
		mu.Lock()
		current = clients[i]
		mu.Unlock()
		clients[i].turn <- struct{}{}
		select {
		case <-parked:
		case j := <-finished:
			done[j] = true
			live--
		}
		mu.Lock()
		current = nil
		mu.Unlock()
	}
	// Per (scope, counter) register: adds and reads.
	var ops []porcupine.Operation
	for _, h := range hist {
		sc := h.op.Scope % len(scopes)
		switch h.op.Kind {
		case "incr":
			ops = append(ops, porcupine.Operation{ClientId: h.thread, Input: [3]int64{int64(sc), int64(h.op.Counter % nCounters), h.op.N}, Output: int64(-1), Call: h.call, Return: h.ret})
		case "value":
			ops = append(ops, porcupine.Operation{ClientId: h.thread, Input: [3]int64{int64(sc), int64(h.op.Counter % nCounters), 0}, Output: h.out, Call: h.call, Return: h.ret})
		case "merge":
			if len(sources) == 0 {
				continue
			}
			vals := c.Sources[h.op.Src%len(sources)]
			for ci, v := range vals {
				if v > 0 && ci < nCounters {
					// A merge adds each counter separately: one add per counter over the same interval.
					ops = append(ops, porcupine.Operation{ClientId: h.thread*10 + ci + 100, Input: [3]int64{int64(sc), int64(ci), v}, Output: int64(-1), Call: h.call, Return: h.ret})
				}
			}
		}
	}
	o.probes["history_ops"] = len(ops)
	model := porcupine.Model{
		Partition: func(history []porcupine.Operation) [][]porcupine.Operation {
			m := map[[2]int64][]porcupine.Operation{}
			for _, op := range history {
				in := op.Input.([3]int64)
				k := [2]int64{in[0], in[1]}
				m[k] = append(m[k], op)
			}
			var out [][]porcupine.Operation
			for _, v := range m {
				out = append(out, v)
			}
			return out
		},
		Init: func() interface{} { return int64(0) },
		Step: func(state, input, output interface{}) (bool, interface{}) {
			s := state.(int64)
			in := input.([3]int64)
			out := output.(int64)
			if out == -1 {
				return true, s + in[2]
			}
			return out == s, s
		},
	}
	switch porcupine.CheckOperationsTimeout(model, ops, 20*time.Second) {
	case porcupine.Illegal:
		o.class = "not-linearizable"
		o.detail = fmt.Sprintf("no sequential order of the increments, merges and reads explains the values read: %+v", hist)
	case porcupine.Unknown:
		o.probes["porcupine_timeout"]++
	}
	// Final values: every increment and merge is accounted for.
	if o.class == "" {
		want := map[[2]int]int64{}
		for _, h := range hist {
			sc := h.op.Scope % len(scopes)
			switch h.op.Kind {
			case "incr":
				want[[2]int{sc, h.op.Counter % nCounters}] += h.op.N
			case "merge":
				if len(sources) > 0 {
					for ci, v := range c.Sources[h.op.Src%len(sources)] {
						if v > 0 && ci < nCounters {
							want[[2]int{sc, ci}] += v
						}
					}
				}
			}
		}
		for k, v := range want {
			if got := counters[k[1]].Value(scopes[k[0]]); got != v {
				o.class, o.detail = "lost-update", fmt.Sprintf("scope %d counter %d ends at %d, the increments and merges issued add up to %d", k[0], k[1], got, v)
				return
			}
		}
	}
	return
}

func mkScope(vals []int64) *metrics.Scope {
	s := new(metrics.Scope)
	for ci, v := range vals {
		if v >= 0 && ci < nCounters {
			counters[ci].Incr(s, v)
		}
	}
	return s
}

func value(s *metrics.Scope, ci int) int64 { return counters[ci].Value(s) }

func runLaws(c *Case) (o outcome) {
	o.probes = map[string]int{}
	defer func() {
		if e := recover(); e != nil {
			o.class, o.detail = "scope-panic", fmt.Sprint(e)
		}
	}()
	l := c.Laws
	norm := func(v []int64) []int64 {
		out := make([]int64, nCounters)
		for i := range out {
			if i < len(v) && v[i] > 0 {
				out[i] = v[i]
			}
		}
		return out
	}
	a, b := mkScope(l.A), mkScope(l.B)
	ma, mb := norm(l.A), norm(l.B)
	bDead := false
	for si, step := range l.Steps {
		switch step {
		case "merge_ab":
			if bDead {
				continue
			}
			a.Merge(b)
			for i := range ma {
				ma[i] += mb[i]
			}
		case "reset_a_nil":
			a.Reset(nil)
			ma = make([]int64, nCounters)
		case "reset_a_b":
			if bDead {
				continue
			}
			a.Reset(b)
			copy(ma, mb)
			// The two scopes may now share instances; b is not used again.
			bDead = true
		case "gob_a":
			var buf bytes.Buffer
			if err := gob.NewEncoder(&buf).Encode(a); err != nil {
				o.class, o.detail = "gob-error", err.Error()
				return
			}
			var d metrics.Scope
			if err := gob.NewDecoder(&buf).Decode(&d); err != nil {
				o.class, o.detail = "gob-error", err.Error()
				return
			}
			a = &d
			o.probes["gob_round_trips"]++
		case "incr_a":
			counters[si%nCounters].Incr(a, int64(si+1))
			ma[si%nCounters] += int64(si + 1)
		}
		for i := 0; i < nCounters; i++ {
			if got := value(a, i); got != ma[i] {
				o.class, o.detail = "law-violated", fmt.Sprintf("after step %d (%s) counter %d of scope a is %d, want %d", si, step, i, got, ma[i])
				return
			}
		}
		if !bDead {
			for i := 0; i < nCounters; i++ {
				if got := value(b, i); got != mb[i] {
					o.class, o.detail = "operand-altered", fmt.Sprintf("after step %d (%s) counter %d of the untouched scope b is %d, want %d", si, step, i, got, mb[i])
					return
				}
			}
		}
	}
	return
}

func runCase(c *Case) outcome {
	compkit.Journal(c)
	if c.Mode == "laws" {
		return runLaws(c)
	}
	return runConc(c)
}

func genCase(r compkit.Rand, i int) *Case {
	if i%3 == 2 {
		l := &LawCase{}
		for k := 0; k < nCounters; k++ {
			l.A = append(l.A, int64(r.Pick(-1, 0, 1, 5, 1000)))
			l.B = append(l.B, int64(r.Pick(-1, 0, 2, 7, 100000)))
		}
		steps := []string{"merge_ab", "reset_a_nil", "reset_a_b", "gob_a", "incr_a"}
		for k := 0; k < 1+r.Intn(7); k++ {
			l.Steps = append(l.Steps, steps[r.Intn(len(steps))])
		}
		return &Case{Mode: "laws", Laws: l}
	}
	c := &Case{Mode: "conc", Sched: r.Uint64() % 1000000}
	for k := 0; k < 1+r.Intn(2); k++ {
		var vals []int64
		for q := 0; q < nCounters; q++ {
			vals = append(vals, int64(r.Pick(-1, 0, 3, 10)))
		}
		c.Sources = append(c.Sources, vals)
	}
	nt := 2 + r.Intn(3)
	for t := 0; t < nt; t++ {
		var ops []Op
		for k := 0; k < 1+r.Intn(4); k++ {
			op := Op{Scope: r.Intn(2), Counter: r.Intn(nCounters)}
			switch x := r.Intn(10); {
			case x < 5:
				op.Kind, op.N = "incr", int64(1+r.Intn(5))
			case x < 8:
				op.Kind = "value"
			default:
				op.Kind, op.Src = "merge", r.Intn(2)
			}
			ops = append(ops, op)
		}
		c.Threads = append(c.Threads, ops)
	}
	return c
}

func TestBatch(t *testing.T) {
	seed, tier, out, _ := compkit.Env()
	if out == "" {
		t.Skip("VERIF_OUT not set")
	}
	n, budget := 3000, 60*time.Second
	if tier != "quick" {
		n, budget = 200000, 10*time.Minute
	}
	if v := os.Getenv("VERIF_N"); v != "" {
		fmt.Sscanf(v, "%d", &n)
	}
	if v := os.Getenv("VERIF_BUDGET_S"); v != "" {
		var s int
		fmt.Sscanf(v, "%d", &s)
		budget = time.Duration(s) * time.Second
	}
	start := time.Now()
	dl := compkit.Within(budget)
	res := &compkit.Result{Property: "C20", Engine: "comp-scopesim", Probes: map[string]int{}, Faults: map[string]int{},
		Rule: "(a) 2-4 logical threads issue Incr / Value / Merge(frozen source) on two shared scopes and three counters; each thread is released one yield point at a time (yield points sit before every load and compare-and-swap that creates a scope's storage or a metric instance) by a seeded scheduler, so that first-use races happen in every order; histories (event sequence numbers) are checked with porcupine against a counter model per (scope, counter) (a Merge is one add per counter over the same interval), and final values must equal the sum of everything issued; (b) sequential law scenarios: Merge adds, Reset(nil) zeroes, Reset(u) reports u's values, a gob round trip preserves every registered counter, the untouched operand is never altered; the end-to-end clause (counters of a Result == per-row calls of the reference, both executors, after the worker->driver gob trip) is checked by the whole-system batch, see coverage.whole_system; distinct = distinct case hashes",
		Stubs: []string{"real: metrics.Scope, metrics.Counter, gob encoding of scopes", "stub: the threads' interleaving (cooperative scheduler at the simhook yield points)"},
	}
	distinct := map[string]bool{}
	seen := map[string]bool{}
	for i := 0; i < n && !dl.Passed(); i++ {
		s := compkit.Mix(seed, "C20", i)
		c := genCase(compkit.New(s), i)
		o := runCase(c)
		res.Evaluations++
		distinct[compkit.Hash(c)] = true
		for k, v := range o.probes {
			res.Probes[k] += v
		}
		res.Probes["mode:"+c.Mode]++
		if len(res.Samples) < 3 {
			res.Samples = append(res.Samples, c)
		}
		if o.class != "" && !seen[o.class] {
			seen[o.class] = true
			b, _ := json.Marshal(c)
			res.Violations = append(res.Violations, compkit.Violation{Class: o.class, Detail: o.detail, Seed: s, Case: b})
		}
	}
	res.Distinct = len(distinct)
	res.WallS = time.Since(start).Seconds()
	if err := res.Write(out); err != nil {
		t.Fatal(err)
	}
}

func TestReplay(t *testing.T) {
	_, _, out, replay := compkit.Env()
	if replay == "" {
		t.Skip("VERIF_REPLAY not set")
	}
	b, err := os.ReadFile(replay)
	if err != nil {
		t.Fatal(err)
	}
	var c Case
	if err := json.Unmarshal(b, &c); err != nil {
		t.Fatal(err)
	}
	o := runCase(&c)
	res := &compkit.Result{Property: "C20", Engine: "comp-scopesim", Evaluations: 1}
	if o.class != "" {
		res.Violations = []compkit.Violation{{Class: o.class, Detail: o.detail, Case: b}}
	}
	fmt.Println("class:", o.class, "detail:", o.detail)
	if out != "" {
		res.Write(out)
	}
}
