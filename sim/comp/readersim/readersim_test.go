// Package readersim drives every reader the library builds (operator readers,
// multi/frame/closing readers, scanners, task buffers, sort/merge/reduce
// readers) with a simulated upstream (scripted chunking, empty reads,
// rows-with-EOF, injected read errors) and a simulated consumer (seeded
// destination sizes, poisoned destination frames, views at an offset), and
// checks the Reader contract and the delivered row sequence (C17, C10).
package readersim

import (
	"bytes"
	"context"
	"encoding/json"
	"errors"
	"fmt"
	"os"
	"path/filepath"
	"reflect"
	"sort"
	"strings"
	"testing"
	"time"

	"github.com/grailbio/base/log"
	"github.com/grailbio/bigslice"
	"github.com/grailbio/bigslice/exec"
	"github.com/grailbio/bigslice/frame"
	"github.com/grailbio/bigslice/metrics"
	"github.com/grailbio/bigslice/slicefunc"
	"github.com/grailbio/bigslice/sliceio"
	"github.com/grailbio/bigslice/slicetype"
	"github.com/grailbio/bigslice/sortio"

	"verifsim/compkit"
	"verifsim/interp"
	"verifsim/spec"
)

// Source describes one scripted upstream.
type Source struct {
	KT      string `json:"kt"`
	N       int    `json:"n"`
	Card    int    `json:"card"`
	DSeed   int    `json:"dseed"`
	Chunks  []int  `json:"chunks,omitempty"` // rows per read, cycled; 0 = empty non-EOF read
	EOFData bool   `json:"eofdata,omitempty"`
	ErrAt   int    `json:"err_at,omitempty"` // fail the ErrAt-th read (1-based; 0 = never)
	Sorted  bool   `json:"sorted,omitempty"`
	Unique  bool   `json:"unique,omitempty"`
}

// Case is an explicit reader case.
type Case struct {
	Reader  string   `json:"reader"` // op:<...> | multi | execmulti | frame | closing | scanner | taskbuf | sort | merge | reduce
	Node    spec.Node `json:"node"`
	Sources []Source `json:"sources"`
	Dst     []int    `json:"dst"`
	Offset  int      `json:"offset"` // destination frames are views at this offset
	Spill   int      `json:"spill,omitempty"`
}

var injected = errors.New("INJECTED upstream read error")

// scripted is the simulated upstream reader.
type scripted struct {
	typ    slicetype.Type
	rows   []spec.Row
	src    *Source
	pos    int
	calls  int
	done   bool
	failed bool
	after  int // reads after EOF/err
}

func (s *scripted) Read(ctx context.Context, f frame.Frame) (int, error) {
	s.calls++
	if s.failed {
		s.after++
		return 0, injected
	}
	if s.done {
		s.after++
		return 0, sliceio.EOF
	}
	if s.src.ErrAt > 0 && s.calls == s.src.ErrAt {
		s.failed = true
		return 0, injected
	}
	want := f.Len()
	if len(s.src.Chunks) > 0 {
		want = s.src.Chunks[(s.calls-1)%len(s.src.Chunks)]
		if want == 0 && s.calls > 6*len(s.src.Chunks) {
			want = 1
		}
	}
	if want > f.Len() {
		want = f.Len()
	}
	if rem := len(s.rows) - s.pos; want > rem {
		want = rem
	}
	for i := 0; i < want; i++ {
		for c, v := range s.rows[s.pos+i] {
			f.Index(c, i).Set(reflect.ValueOf(v))
		}
	}
	s.pos += want
	if s.pos == len(s.rows) && (s.src.EOFData || want == 0) {
		s.done = true
		return want, sliceio.EOF
	}
	return want, nil
}

func (s *scripted) Close() error { return nil }

func sourceRows(src *Source) []spec.Row {
	n := &spec.Node{KT: src.KT, N: src.N, Card: src.Card, DSeed: src.DSeed}
	rows := make([]spec.Row, 0, src.N)
	for i := 0; i < src.N; i++ {
		rows = append(rows, spec.SourceRow(n, i))
	}
	if src.Unique {
		seen := map[string]bool{}
		var u []spec.Row
		for _, r := range rows {
			k := spec.Canon(r[0])
			if !seen[k] {
				seen[k] = true
				u = append(u, r)
			}
		}
		rows = u
	}
	if src.Sorted {
		sortRows(src.KT, rows)
	}
	return rows
}

func lessKey(kt string, a, b interface{}) bool {
	switch kt {
	case "int":
		return a.(int) < b.(int)
	case "int64":
		return a.(int64) < b.(int64)
	case "string":
		return a.(string) < b.(string)
	case "uint8":
		return a.(uint8) < b.(uint8)
	case "uint16":
		return a.(uint16) < b.(uint16)
	case "float64":
		return a.(float64) < b.(float64)
	case "bool":
		return !a.(bool) && b.(bool)
	case "bytes":
		return string(a.([]byte)) < string(b.([]byte))
	}
	panic(kt)
}

func sortRows(kt string, rows []spec.Row) {
	sort.SliceStable(rows, func(i, j int) bool { return lessKey(kt, rows[i][0], rows[j][0]) })
}

// stub is a bigslice.Slice standing for the scripted upstream.
type stub struct {
	slicetype.Type
	name bigslice.Name
}

func (s *stub) Name() bigslice.Name                 { return s.name }
func (s *stub) NumShard() int                       { return 1 }
func (s *stub) ShardType() bigslice.ShardType       { return bigslice.HashShard }
func (s *stub) NumDep() int                         { return 0 }
func (s *stub) Dep(i int) bigslice.Dep              { panic("no deps") }
func (s *stub) Combiner() slicefunc.Func            { return slicefunc.Nil }
func (s *stub) Reader(int, []sliceio.Reader) sliceio.Reader { panic("stub") }

type outcome struct {
	class, detail string
	probes        map[string]int
	key           string
}

var poisonVals = map[string]interface{}{
	"int": 0x7ead7ead, "int64": int64(-0x7ead), "string": "POISON", "uint8": uint8(0xa5), "uint16": uint16(0xa5a5),
	"float64": float64(-77.25), "bool": true, "bytes": []byte("POISON"), "[]int": []int{0x7ead},
	"p:string": "POISON", "p:bytes": []byte("POISON"), "p:gob": spec.GobVal{A: 0x7ead, B: "POISON"}, "p:custom": spec.CustomVal{X: 0x7ead, S: "POISON"},
}

func poison(f frame.Frame, cols []string) {
	for c, col := range cols {
		for i := 0; i < f.Len(); i++ {
			f.Index(c, i).Set(reflect.ValueOf(poisonVals[col]))
		}
	}
}

func isPoison(f frame.Frame, cols []string, i int) bool {
	for c, col := range cols {
		if spec.Canon(f.Index(c, i).Interface()) != spec.Canon(poisonVals[col]) {
			return false
		}
	}
	return true
}

func rowAt(f frame.Frame, cols []string, i int) spec.Row {
	r := make(spec.Row, len(cols))
	for c := range cols {
		v := f.Index(c, i).Interface()
		switch x := v.(type) {
		case []byte:
			v = append([]byte{}, x...)
		case []int:
			v = append([]int{}, x...)
		case spec.GobVal:
			x.C = append([]int(nil), x.C...)
			v = x
		}
		r[c] = v
	}
	return r
}

// consume reads r to the end the way a picky consumer would, checking the
// Reader contract; it returns the delivered rows and the final error.
func consume(c *Case, t spec.Type, r sliceio.Reader, zeroesDst bool) (rows []spec.Row, rerr error, o outcome) {
	o.probes = map[string]int{}
	typ := interp.SliceType(t)
	type kept struct {
		f     frame.Frame
		n     int
		canon []string
	}
	var keep []kept
	ctx := metrics.ScopedContext(context.Background(), new(metrics.Scope))
	for k := 0; ; k++ {
		d := 1
		if len(c.Dst) > 0 {
			d = c.Dst[k%len(c.Dst)]
		}
		if d < 1 {
			d = 1
		}
		big := frame.Make(typ, c.Offset+d+2, c.Offset+d+2)
		poison(big, t.Cols)
		dst := big.Slice(c.Offset, c.Offset+d)
		n, err := r.Read(ctx, dst)
		if n < 0 || n > d {
			o.class, o.detail = "bad-count", fmt.Sprintf("read #%d returned n=%d for a destination of %d rows", k, n, d)
			return
		}
		// Rows outside the view must never be touched; rows [n:] of the view must not be either.
		for i := 0; i < c.Offset; i++ {
			if !isPoison(big, t.Cols, i) {
				o.class, o.detail = "wrote-outside-view", fmt.Sprintf("read #%d modified row %d before the destination view (offset %d)", k, i, c.Offset)
				return
			}
		}
		for i := c.Offset + d; i < big.Len(); i++ {
			if !isPoison(big, t.Cols, i) {
				o.class, o.detail = "wrote-outside-view", fmt.Sprintf("read #%d modified row %d after the destination view", k, i-c.Offset)
				return
			}
		}
		if !zeroesDst && (err == nil || err == sliceio.EOF) {
			for i := n; i < d; i++ {
				if !isPoison(dst, t.Cols, i) {
					o.class, o.detail = "wrote-beyond-n", fmt.Sprintf("read #%d returned n=%d but modified row %d of the destination", k, n, i)
					return
				}
			}
		}
		kp := kept{f: dst, n: n}
		for i := 0; i < n; i++ {
			row := rowAt(dst, t.Cols, i)
			rows = append(rows, row)
			kp.canon = append(kp.canon, spec.CanonRow(row))
		}
		keep = append(keep, kp)
		if n == 0 && err == nil {
			o.probes["empty_non_eof_read_out"]++
		}
		if n > 0 && err == sliceio.EOF {
			o.probes["rows_with_eof_out"]++
		}
		if err != nil {
			rerr = err
			// EOF (or the error) must be sticky.
			for q := 0; q < 2; q++ {
				big2 := frame.Make(typ, 3, 3)
				n2, err2 := r.Read(ctx, big2)
				if n2 != 0 || err2 == nil {
					o.class, o.detail = "end-not-sticky", fmt.Sprintf("after returning %v, a further read returned n=%d err=%v", err, n2, err2)
					return
				}
			}
			break
		}
		if k > 200000 {
			o.class, o.detail = "no-end", "reader did not end"
			return
		}
	}
	// Frames delivered earlier keep their contents.
	for i, kp := range keep {
		for j := 0; j < kp.n; j++ {
			if got := spec.CanonRow(rowAt(kp.f, t.Cols, j)); got != kp.canon[j] {
				o.class, o.detail = "earlier-rows-altered", fmt.Sprintf("row %d of the frame delivered by read #%d changed from %s to %s after later reads", j, i, kp.canon[j], got)
				return
			}
		}
	}
	return
}

func compare(want *spec.Val, got []spec.Row) string { return spec.CompareRows(want, got) }

func srcVal(src *Source, t spec.Type) *spec.Val {
	rows := sourceRows(src)
	return &spec.Val{T: t, NShard: 1, Rows: rows, Ordered: true, Shards: [][]spec.Row{rows}}
}

func kvType(kt string) spec.Type { return spec.Type{Cols: []string{kt, "int"}, Prefix: 1} }

func tmpEntries() []string {
	dir := os.Getenv("TMPDIR")
	if dir == "" {
		return nil
	}
	m, _ := filepath.Glob(filepath.Join(dir, "spiller-*"))
	return m
}

func runCase(c *Case) (o outcome) {
	compkit.Journal(c)
	defer func() {
		if e := recover(); e != nil {
			o.class, o.detail = "reader-panic", fmt.Sprint(e)
		}
	}()
	ctx := context.Background()
	mk := func(i int) (*scripted, spec.Type) {
		src := &c.Sources[i]
		t := kvType(src.KT)
		return &scripted{typ: interp.SliceType(t), rows: sourceRows(src), src: src}, t
	}
	anyErr := false
	for _, s := range c.Sources {
		if s.ErrAt > 0 {
			anyErr = true
		}
	}
	var (
		r        sliceio.Reader
		want     *spec.Val
		outT     spec.Type
		zeroes   bool
		upstream []*scripted
		ctorErr  error
	)
	switch {
	case strings.HasPrefix(c.Reader, "op:"):
		// An operator reader over the scripted upstream(s).
		sp := &spec.Spec{Tag: "rs"}
		var args []bigslice.Slice
		var argVals []*spec.Val
		var deps []sliceio.Reader
		for i := range c.Sources {
			s, t := mk(i)
			upstream = append(upstream, s)
			tt := t
			sp.Nodes = append(sp.Nodes, spec.Node{Op: "arg", Arg: i, T: &tt})
			args = append(args, &stub{Type: interp.SliceType(t), name: bigslice.MakeName("stub")})
			argVals = append(argVals, srcVal(&c.Sources[i], t))
			deps = append(deps, s)
		}
		node := c.Node
		node.In = nil
		for i := range c.Sources {
			node.In = append(node.In, i)
			if node.Op != "cogroup" {
				break
			}
		}
		sp.Nodes = append(sp.Nodes, node)
		ts, err := sp.Types()
		if err != nil {
			o.class, o.detail = "bad-case", err.Error()
			return
		}
		outT = ts[sp.Root()]
		ref, err := spec.Eval(sp, argVals)
		if err != nil {
			o.class, o.detail = "bad-case", err.Error()
			return
		}
		want = ref.Vals[sp.Root()]
		sl := interp.Build(sp, args)
		r = sl.Reader(0, deps)
		if node.Op == "fold" || node.Op == "cogroup" {
			want.Ordered = false
		}
	case c.Reader == "multi" || c.Reader == "execmulti":
		var rcs []sliceio.ReadCloser
		var rs []sliceio.Reader
		var all []spec.Row
		for i := range c.Sources {
			s, t := mk(i)
			outT = t
			upstream = append(upstream, s)
			rcs = append(rcs, s)
			rs = append(rs, s)
			all = append(all, s.rows...)
		}
		want = &spec.Val{T: outT, Rows: all, Ordered: true}
		if c.Reader == "multi" {
			r = sliceio.MultiReader(rcs...)
		} else {
			r = exec.VerifMultiReader(rs)
		}
	case c.Reader == "closing":
		s, t := mk(0)
		outT = t
		upstream = append(upstream, s)
		want = &spec.Val{T: t, Rows: s.rows, Ordered: true}
		r = sliceio.NewClosingReader(s)
	case c.Reader == "frame" || c.Reader == "taskbuf" || c.Reader == "codec":
		s, t := mk(0)
		outT = t
		want = &spec.Val{T: t, Rows: s.rows, Ordered: true}
		typ := interp.SliceType(t)
		mkFrame := func(rows []spec.Row) frame.Frame {
			big := frame.Make(typ, len(rows)+c.Offset, len(rows)+c.Offset)
			for i, row := range rows {
				for col, v := range row {
					big.Index(col, c.Offset+i).Set(reflect.ValueOf(v))
				}
			}
			return big.Slice(c.Offset, c.Offset+len(rows))
		}
		if c.Reader == "frame" {
			r = sliceio.FrameReader(mkFrame(s.rows))
		} else if c.Reader == "codec" {
			// Encode the rows in batches cut by the chunk script (sizes grow and
			// shrink), decode them through the stream decoder.
			var buf bytes.Buffer
			enc := sliceio.NewEncodingWriter(&buf)
			pos, k := 0, 0
			for pos < len(s.rows) {
				n := 1
				if len(s.src.Chunks) > 0 {
					n = s.src.Chunks[k%len(s.src.Chunks)]
					k++
				}
				if n == 0 {
					n = 1
				}
				if n > len(s.rows)-pos {
					n = len(s.rows) - pos
				}
				if err := enc.Write(ctx, mkFrame(s.rows[pos:pos+n])); err != nil {
					o.class, o.detail = "encode-error", err.Error()
					return
				}
				pos += n
			}
			r = sliceio.NewDecodingReader(&buf)
		} else {
			// Cut the rows into frames according to the chunk script.
			var frames []frame.Frame
			pos, k := 0, 0
			for pos < len(s.rows) {
				n := 1
				if len(s.src.Chunks) > 0 {
					n = s.src.Chunks[k%len(s.src.Chunks)]
					k++
				}
				if n == 0 && k > 50 {
					n = 1
				}
				if n > len(s.rows)-pos {
					n = len(s.rows) - pos
				}
				frames = append(frames, mkFrame(s.rows[pos:pos+n])) // may be empty
				pos += n
			}
			r = exec.VerifTaskBufferReader([][]frame.Frame{nil, frames}, 1)
		}
	case c.Reader == "scanner":
		s, t := mk(0)
		upstream = append(upstream, s)
		sc := sliceio.NewScanner(interp.SliceType(t), s)
		rows, err := interp.ScanAll(ctx, t, sc)
		if s.failed {
			if err == nil {
				o.class, o.detail = "error-swallowed", "the scanner ended with a nil error although its reader failed"
			}
			return
		}
		if err != nil {
			o.class, o.detail = "scanner-error", err.Error()
			return
		}
		if d := spec.CompareRows(&spec.Val{T: t, Rows: s.rows, Ordered: true}, rows); d != "" {
			o.class, o.detail = "wrong-rows", "scanner: "+d
		}
		// Wrong arity and wrong type are rejected with an error.
		s2, _ := mk(0)
		sc2 := sliceio.NewScanner(interp.SliceType(t), s2)
		var only int
		if sc2.Scan(ctx, &only) || sc2.Err() == nil {
			o.class, o.detail = "scanner-accepts-wrong-arity", "Scan with one destination for a two-column slice did not fail"
		}
		s3, _ := mk(0)
		sc3 := sliceio.NewScanner(interp.SliceType(t), s3)
		var a, b struct{ X int }
		if sc3.Scan(ctx, &a, &b) || sc3.Err() == nil {
			o.class, o.detail = "scanner-accepts-wrong-type", "Scan into destinations of the wrong type did not fail"
		}
		return
	case c.Reader == "sort":
		s, t := mk(0)
		outT = t
		upstream = append(upstream, s)
		rows := append([]spec.Row(nil), s.rows...)
		sortRows(s.src.KT, rows)
		want = &spec.Val{T: t, Rows: rows, Ordered: false}
		before := len(tmpEntries())
		r, ctorErr = sortio.SortReader(ctx, c.Spill, interp.SliceType(t), s)
		if after := len(tmpEntries()); after > before {
			o.class, o.detail = "spill-files-outlive-creation", fmt.Sprintf("%d spill directories remain after SortReader returned", after-before)
			return
		}
	case c.Reader == "merge" || c.Reader == "reduce":
		var rs []sliceio.Reader
		var all []spec.Row
		kt := "int"
		if len(c.Sources) > 0 {
			kt = c.Sources[0].KT
		}
		outT = kvType(kt)
		for i := range c.Sources {
			s, t := mk(i)
			outT = t
			upstream = append(upstream, s)
			rs = append(rs, s)
			all = append(all, s.rows...)
		}
		sortRows(kt, all)
		if c.Reader == "merge" {
			want = &spec.Val{T: outT, Rows: all, Ordered: false}
			r, ctorErr = sortio.NewMergeReader(ctx, interp.SliceType(outT), rs)
		} else {
			// One row per distinct key with the sum.
			var red []spec.Row
			for _, row := range all {
				if n := len(red); n > 0 && spec.Canon(red[n-1][0]) == spec.Canon(row[0]) {
					red[n-1] = spec.Row{row[0], red[n-1][1].(int) + row[1].(int)}
				} else {
					red = append(red, spec.Row{row[0], row[1]})
				}
			}
			want = &spec.Val{T: outT, Rows: red, Ordered: false}
			fn, _ := slicefunc.Of(func(a, b int) int { return a + b })
			r = sortio.Reduce(interp.SliceType(outT), "rs", rs, fn)
		}
	default:
		o.class, o.detail = "bad-case", "unknown reader "+c.Reader
		return
	}
	if ctorErr != nil {
		if anyErr && strings.Contains(ctorErr.Error(), "INJECTED") {
			o.probes = map[string]int{"error_reported_by_constructor": 1}
			return
		}
		o.class, o.detail = "constructor-error", ctorErr.Error()
		return
	}
	if c.Node.Op == "readerfunc" {
		zeroes = true
	}
	rows, rerr, oc := consume(c, outT, r, zeroes)
	o = oc
	if o.class != "" {
		return
	}
	if anyErr {
		// The injected upstream error must be reported, never replaced by a clean end.
		reached := false
		for _, u := range upstream {
			if u.failed {
				reached = true
			}
		}
		if !reached {
			// The reader never got to the failing read (e.g. Head stopped early).
			o.probes["injected_error_not_reached"]++
			if rerr == sliceio.EOF && c.Node.Op != "head" {
				// fall through to the fidelity check below
			} else if rerr == sliceio.EOF {
				return
			}
		} else {
			if rerr == sliceio.EOF {
				o.class, o.detail = "error-swallowed", fmt.Sprintf("an upstream read failed but the reader reported a clean end-of-stream after %d rows", len(rows))
				return
			}
			o.probes["upstream_error_reported"]++
			return
		}
	}
	if rerr != sliceio.EOF {
		o.class, o.detail = "unexpected-error", fmt.Sprintf("reader failed with %v after %d rows", rerr, len(rows))
		return
	}
	if d := compare(want, rows); d != "" {
		o.class, o.detail = "wrong-rows", d
		return
	}
	// Sorted output where the reader promises it.
	switch c.Reader {
	case "sort", "merge", "reduce":
		kt := "int"
		if len(c.Sources) > 0 {
			kt = c.Sources[0].KT
		}
		for i := 1; i < len(rows); i++ {
			if lessKey(kt, rows[i][0], rows[i-1][0]) {
				o.class, o.detail = "not-sorted", fmt.Sprintf("row %d (%s) sorts before row %d (%s)", i, spec.CanonRow(rows[i]), i-1, spec.CanonRow(rows[i-1]))
				return
			}
		}
	}
	for _, u := range upstream {
		if u.src.EOFData && len(u.rows) > 0 {
			o.probes["upstream_rows_with_eof"]++
		}
	}
	return
}

// --- generation ---

var keyTypes = []string{"int", "string", "int64", "uint8", "float64", "bytes", "uint16", "bool"}

func genSource(r compkit.Rand, kt string, emptyReads bool) Source {
	s := Source{KT: kt, N: r.Pick(0, 1, 2, 3, 7, 8, 9, 127, 128, 129, 300), Card: r.Pick(1, 2, 3, 17, 100, 1000), DSeed: r.Intn(1000)}
	if m := spec.MaxCard(kt); s.Card > m {
		s.Card = m
	}
	if r.Chance(0.7) {
		k := 1 + r.Intn(3)
		for i := 0; i < k; i++ {
			if emptyReads {
				s.Chunks = append(s.Chunks, r.Pick(0, 1, 1, 2, 3, 7, 64, 200))
			} else {
				s.Chunks = append(s.Chunks, r.Pick(1, 1, 2, 3, 7, 64, 200))
			}
		}
	}
	s.EOFData = r.Chance(0.5)
	return s
}

func genCase(r compkit.Rand, mode string) *Case {
	c := &Case{Offset: r.Pick(0, 0, 1, 5)}
	for i := 0; i < 1+r.Intn(3); i++ {
		c.Dst = append(c.Dst, r.Pick(1, 1, 2, 3, 7, 64, 128, 129, 300))
	}
	kt := keyTypes[r.Intn(len(keyTypes))]
	if mode == "c10" {
		c.Reader = []string{"sort", "sort", "merge", "reduce"}[r.Intn(4)]
		c.Spill = r.Pick(1, 1, 10, 100, 1000, 1 << 20)
		n := 1
		if c.Reader != "sort" {
			n = r.Pick(0, 1, 2, 3, 5)
		}
		for i := 0; i < n; i++ {
			s := genSource(r, kt, c.Reader == "sort")
			if c.Reader != "sort" {
				s.Sorted = true
				if r.Chance(0.2) {
					s.N = 0
				}
			}
			if c.Reader == "reduce" {
				s.Unique = true
			}
			c.Sources = append(c.Sources, s)
		}
		if len(c.Sources) > 0 && r.Chance(0.25) {
			i := r.Intn(len(c.Sources))
			c.Sources[i].ErrAt = 1 + r.Intn(5)
		}
		return c
	}
	readers := []string{"op:map", "op:filter", "op:flatmap", "op:head", "op:fold", "op:writerfunc", "op:cogroup", "op:reshuffle", "multi", "execmulti", "frame", "closing", "scanner", "taskbuf", "codec"}
	c.Reader = readers[r.Intn(len(readers))]
	switch c.Reader {
	case "op:map":
		c.Node = spec.Node{Op: "map", Fn: []string{"inc", "keyfold", "widen"}[r.Intn(3)], M: r.Pick(1, 2, 5)}
	case "op:filter":
		c.Node = spec.Node{Op: "filter", M: r.Pick(1, 2, 3, 50)}
	case "op:flatmap":
		c.Node = spec.Node{Op: "flatmap", M: r.Pick(0, 1, 2, 3, 5)}
	case "op:head":
		c.Node = spec.Node{Op: "head", M: r.Pick(0, 1, 2, 127, 128, 129, 1000)}
	case "op:fold":
		kt = []string{"int", "string", "int64"}[r.Intn(3)]
		c.Node = spec.Node{Op: "fold", Fn: "sum"}
	case "op:writerfunc":
		c.Node = spec.Node{Op: "writerfunc"}
	case "op:cogroup":
		c.Node = spec.Node{Op: "cogroup"}
	case "op:reshuffle":
		c.Node = spec.Node{Op: "reshuffle"}
	}
	c.Node.NoCount = false
	n := 1
	if c.Reader == "multi" || c.Reader == "execmulti" {
		n = r.Pick(0, 1, 2, 3, 4)
	}
	if c.Reader == "op:cogroup" {
		n = r.Pick(1, 2, 3)
	}
	// Operator readers tolerate empty non-EOF reads of their input.
	empties := strings.HasPrefix(c.Reader, "op:") || c.Reader == "multi" || c.Reader == "execmulti" || c.Reader == "closing" || c.Reader == "scanner" || c.Reader == "taskbuf"
	for i := 0; i < n; i++ {
		c.Sources = append(c.Sources, genSource(r, kt, empties))
	}
	if r.Chance(0.12) && len(c.Sources) > 0 && c.Reader != "frame" && c.Reader != "taskbuf" {
		c.Sources[r.Intn(len(c.Sources))].ErrAt = 1 + r.Intn(5)
	}
	return c
}

func shrink(c *Case, class string) *Case {
	cur := cloneCase(c)
	try := func(x *Case) bool { return runCase(x).class == class }
	for changed := true; changed; {
		changed = false
		for i := range cur.Sources {
			for _, n := range []int{0, 1, 2, cur.Sources[i].N / 2} {
				if n < cur.Sources[i].N {
					x := cloneCase(cur)
					x.Sources[i].N = n
					if try(x) {
						cur, changed = x, true
						break
					}
				}
			}
			if len(cur.Sources[i].Chunks) > 0 {
				x := cloneCase(cur)
				x.Sources[i].Chunks = nil
				if try(x) {
					cur, changed = x, true
				}
			}
			if cur.Sources[i].Card > 1 {
				x := cloneCase(cur)
				x.Sources[i].Card = 1
				if try(x) {
					cur, changed = x, true
				}
			}
		}
		if len(cur.Sources) > 1 {
			for i := range cur.Sources {
				x := cloneCase(cur)
				x.Sources = append(x.Sources[:i], x.Sources[i+1:]...)
				if try(x) {
					cur, changed = x, true
					break
				}
			}
		}
		if len(cur.Dst) > 1 {
			x := cloneCase(cur)
			x.Dst = x.Dst[:1]
			if try(x) {
				cur, changed = x, true
			}
		}
		if cur.Offset != 0 {
			x := cloneCase(cur)
			x.Offset = 0
			if try(x) {
				cur, changed = x, true
			}
		}
	}
	return cur
}

func cloneCase(c *Case) *Case {
	b, _ := json.Marshal(c)
	var x Case
	json.Unmarshal(b, &x)
	return &x
}

type quiet struct{}

func (quiet) Level() log.Level                                      { return log.Off }
func (quiet) Output(calldepth int, level log.Level, s string) error { return nil }

func mode() (string, string) {
	if os.Getenv("VERIF_MODE") == "c10" {
		return "c10", "C10"
	}
	return "c17", "C17"
}

func TestBatch(t *testing.T) {
	seed, tier, out, _ := compkit.Env()
	if out == "" {
		t.Skip("VERIF_OUT not set")
	}
	log.SetOutputter(quiet{})
	md, prop := mode()
	n, budget := 20000, 60*time.Second
	if tier != "quick" {
		n, budget = 1000000, 15*time.Minute
	}
	if v := os.Getenv("VERIF_N"); v != "" {
		fmt.Sscanf(v, "%d", &n)
	}
	if v := os.Getenv("VERIF_BUDGET_S"); v != "" {
		var s int
		fmt.Sscanf(v, "%d", &s)
		budget = time.Duration(s) * time.Second
	}
	start := time.Now()
	dl := compkit.Within(budget)
	rule := "every reader the library builds for operators (map, filter, flatmap, head, fold, writerfunc, cogroup, reshuffle via the operators' Reader methods), sliceio.MultiReader, the executors' multi reader, FrameReader, ClosingReader, Scanner and task-buffer readers, driven by a simulated upstream (scripted chunk lengths incl. empty non-EOF reads and rows-with-EOF, an injected read error at the k-th read) and a simulated consumer (seeded destination sizes >= 1, destination frames poisoned and taken as views at an offset); oracles: 0 <= n <= len(dst), rows outside the view and rows [n:] untouched, delivered sequence == reference independent of both chunkings, earlier delivered frames unchanged, EOF/error sticky, injected upstream errors reported and never turned into a clean end; scanner: each row once, nil error at end, wrong arity/type rejected; distinct = distinct case hashes"
	if md == "c10" {
		rule = "sortio.SortReader, NewMergeReader and Reduce over simulated upstream readers (arbitrary chunking, empty non-EOF reads for the sorting reader only, rows-with-EOF, an injected read error at the k-th read), spill targets from 1 byte up, per-process vector size / sort canary / spill batch sizes from {1..256} (environment), 0..5 input streams some empty, seeded consumer destination sizes; oracles: sort output == input multiset in non-decreasing key order; merge == sorted union; reduce-merge == one row per key with the fold; an injected read error is returned by the constructor or a Read and never replaced by EOF; no spill directory remains once the constructor has returned; distinct = distinct case hashes"
	}
	res := &compkit.Result{Property: prop, Engine: "comp-readersim", Probes: map[string]int{}, Faults: map[string]int{}, Rule: rule,
		Stubs: []string{"real: operator Reader implementations, sliceio/sortio readers, the stream encoder+decoder pair, exec multiReader and taskBuffer reader, frame, spill files on tmpfs", "stub: upstream readers and the consumer (simulated); clock not involved"},
		Extra: map[string]any{"knobs": map[string]string{"VERIF_CHUNK": os.Getenv("VERIF_CHUNK"), "VERIF_SORT_CANARY": os.Getenv("VERIF_SORT_CANARY")}}}
	distinct := map[string]bool{}
	seen := map[string]bool{}
	for i := 0; i < n && !dl.Passed(); i++ {
		s := compkit.Mix(seed, prop, i)
		r := compkit.New(s)
		c := genCase(r, md)
		o := runCase(c)
		res.Evaluations++
		distinct[compkit.Hash(c)] = true
		for k, v := range o.probes {
			res.Probes[k] += v
		}
		res.Probes["reader:"+c.Reader]++
		for _, src := range c.Sources {
			if src.ErrAt > 0 {
				res.Faults["upstream-read-error"]++
			}
		}
		if len(res.Samples) < 3 {
			res.Samples = append(res.Samples, c)
		}
		if o.class == "bad-case" {
			continue
		}
		if o.class != "" && !seen[o.class+c.Reader] {
			seen[o.class+c.Reader] = true
			m := shrink(c, o.class)
			o2 := runCase(m)
			if o2.class != o.class {
				m, o2 = c, o
			}
			b, _ := json.Marshal(m)
			res.Violations = append(res.Violations, compkit.Violation{Class: o.class + "@" + c.Reader, Detail: o2.detail, Seed: s, Case: b})
		}
	}
	res.Distinct = len(distinct)
	res.WallS = time.Since(start).Seconds()
	if err := res.Write(out); err != nil {
		t.Fatal(err)
	}
}

func TestReplay(t *testing.T) {
	_, _, out, replay := compkit.Env()
	if replay == "" {
		t.Skip("VERIF_REPLAY not set")
	}
	log.SetOutputter(quiet{})
	b, err := os.ReadFile(replay)
	if err != nil {
		t.Fatal(err)
	}
	var c Case
	if err := json.Unmarshal(b, &c); err != nil {
		t.Fatal(err)
	}
	o := runCase(&c)
	_, prop := mode()
	res := &compkit.Result{Property: prop, Engine: "comp-readersim", Evaluations: 1}
	if o.class != "" {
		res.Violations = []compkit.Violation{{Class: o.class + "@" + c.Reader, Detail: o.detail, Case: b}}
	}
	fmt.Println("class:", o.class, "detail:", o.detail)
	if out != "" {
		res.Write(out)
	}
}
