package dbg

import (
	"context"
	"fmt"
	"os"
	"testing"

	"github.com/grailbio/bigmachine/testsystem"
	"github.com/grailbio/bigslice/exec"
)

func TestDbgCluster(t *testing.T) {
	dir, _ := os.MkdirTemp("", "dbg")
	defer os.RemoveAll(dir)
	sys := testsystem.New()
	sys.Machineprocs = 2
	sess := exec.Start(exec.Bigmachine(sys), exec.Parallelism(2))
	ctx := context.Background()
	for _, n := range []int{100, 129, 257} {
		d := fmt.Sprintf("%s/%d", dir, n)
		os.MkdirAll(d, 0o755)
		for round := 0; round < 2; round++ {
			res, err := sess.Run(ctx, prog, d, n)
			if err != nil {
				t.Errorf("n=%d round %d: %v", n, round, err)
				continue
			}
			sc := res.Scanner()
			var k int64
			var v, cnt int
			for sc.Scan(ctx, &k, &v) {
				cnt++
			}
			if err := sc.Err(); err != nil {
				t.Errorf("n=%d round %d scan: %v", n, round, err)
			}
			sc.Close()
			t.Logf("n=%d round %d rows=%d", n, round, cnt)
		}
	}
}
