package dbg

import (
	"bytes"
	"fmt"
	"io"
	"os"
	"testing"

	"github.com/grailbio/base/compress/zstd"
)

func TestDump(t *testing.T) {
	data, err := os.ReadFile("/dev/shm/c13dbg/a-c1-0000-of-0001")
	if err != nil {
		t.Skip(err)
	}
	zr, err := zstd.NewReader(bytes.NewReader(data))
	if err != nil {
		t.Fatal(err)
	}
	raw, err := io.ReadAll(zr)
	fmt.Printf("compressed %d bytes, raw %d bytes, err=%v\n", len(data), len(raw), err)
	fmt.Printf("%x\n", raw)
}
