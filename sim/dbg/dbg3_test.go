package dbg

import (
	"context"
	"encoding/json"
	"os"
	"strings"
	"testing"

	"github.com/grailbio/bigmachine/testsystem"
	"github.com/grailbio/bigslice/exec"

	"verifsim/interp"
	"verifsim/spec"
)

func TestDbgInterp(t *testing.T) {
	dir, _ := os.MkdirTemp("", "dbg")
	defer os.RemoveAll(dir)
	var sp spec.Spec
	js := os.Getenv("DBG_SPEC")
	json.Unmarshal([]byte(strings.ReplaceAll(js, "DIR", dir)), &sp)
	sys := testsystem.New()
	sys.Machineprocs = 2
	var sess *exec.Session
	if os.Getenv("DBG_LOCAL") != "" {
		sess = exec.Start(exec.Local)
	} else {
		sess = exec.Start(exec.Bigmachine(sys), exec.Parallelism(2))
	}
	ctx := context.Background()
	for round := 0; round < 2; round++ {
		res, err := sess.Run(ctx, interp.Prog0, sp)
		if err != nil {
			t.Fatalf("round %d: %v", round, err)
		}
		ts, _ := sp.Types()
		rows, err := interp.ScanAll(ctx, ts[sp.Root()], res.Scanner())
		t.Logf("round %d rows=%d err=%v", round, len(rows), err)
	}
}
