package dbg

import (
	"context"
	"fmt"
	"os"
	"testing"

	"github.com/grailbio/bigslice"
	"github.com/grailbio/bigslice/exec"
	"github.com/grailbio/bigslice/sliceio"
)

var prog = bigslice.Func(func(dir string, n int) bigslice.Slice {
	type st struct{ i int }
	s := bigslice.ReaderFunc(1, func(shard int, state *st, ks []int64, vs []int) (int, error) {
		k := 0
		for k < len(ks) && state.i < n {
			ks[k] = int64(state.i % 2)
			vs[k] = state.i
			state.i++
			k++
		}
		if state.i >= n {
			return k, sliceio.EOF
		}
		return k, nil
	})
	s = bigslice.Flatmap(s, func(k int64, v int) ([]int64, []int) {
		if v%2 == 0 {
			return nil, nil
		}
		return []int64{k}, []int{v}
	})
	return bigslice.CachePartial(context.Background(), s, dir+"/c")
})

func TestDbg(t *testing.T) {
	dir, _ := os.MkdirTemp("", "dbg")
	defer os.RemoveAll(dir)
	sess := exec.Start(exec.Local)
	ctx := context.Background()
	for _, n := range []int{100, 128, 129, 130, 256, 257} {
		d := fmt.Sprintf("%s/%d", dir, n)
		os.MkdirAll(d, 0o755)
		for round := 0; round < 2; round++ {
			res, err := sess.Run(ctx, prog, d, n)
			if err != nil {
				t.Errorf("n=%d round %d: %v", n, round, err)
				continue
			}
			sc := res.Scanner()
			var k int64
			var v, cnt int
			for sc.Scan(ctx, &k, &v) {
				cnt++
			}
			if err := sc.Err(); err != nil {
				t.Errorf("n=%d round %d scan: %v", n, round, err)
			}
			sc.Close()
			t.Logf("n=%d round %d rows=%d", n, round, cnt)
		}
	}
}
