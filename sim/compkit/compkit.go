// Package compkit is shared by the component simulations: result format,
// seeded choice source, replay files.
package compkit

import (
	"crypto/sha256"
	"encoding/json"
	"fmt"
	"math/rand"
	"os"
	"strconv"
	"time"
)

// Violation is a violation found by a component simulation.
type Violation struct {
	Class  string          `json:"class"`
	Detail string          `json:"detail"`
	Seed   uint64          `json:"seed"`
	Case   json.RawMessage `json:"case"` // minimised explicit case
	// Env: process-wide knobs (set by the orchestrator) the case was run under.
	Env []string `json:"env,omitempty"`
}

// Result is what a component batch reports to the orchestrator.
type Result struct {
	Property    string         `json:"property"`
	Engine      string         `json:"engine"`
	Evaluations int            `json:"evaluations"`
	Distinct    int            `json:"distinct"`
	Rule        string         `json:"rule"`
	Samples     []any          `json:"samples"`
	Probes      map[string]int `json:"probes"`
	Faults      map[string]int `json:"faults_fired"`
	SimSeconds  float64        `json:"simulated_seconds"`
	Violations  []Violation    `json:"violations"`
	Stubs       []string       `json:"real_vs_stub"`
	Assumptions []string       `json:"assumptions"`
	Extra       map[string]any `json:"extra,omitempty"`
	WallS       float64        `json:"wall_s"`
}

// Env returns the batch parameters from the environment.
func Env() (seed uint64, tier string, out string, replay string) {
	seed = 1
	if s := os.Getenv("VERIF_SEED"); s != "" {
		if v, err := strconv.ParseUint(s, 10, 64); err == nil {
			seed = v
		} else if iv, err := strconv.ParseInt(s, 10, 64); err == nil {
			seed = uint64(iv)
		}
	}
	tier = os.Getenv("VERIF_TIER")
	if tier == "" {
		tier = "quick"
	}
	return seed, tier, os.Getenv("VERIF_OUT"), os.Getenv("VERIF_REPLAY")
}

var journal *os.File

// Journal records the case that is about to be run in "$VERIF_OUT.current"
// (overwriting the previous one). If the process then dies or hangs inside the
// code under test, the orchestrator re-runs exactly that case in a fresh process
// to decide whether the crash or hang is reproducible (a violation) or not.
func Journal(c interface{}) {
	out := os.Getenv("VERIF_OUT")
	if out == "" || os.Getenv("VERIF_REPLAY") != "" {
		return
	}
	if journal == nil {
		f, err := os.OpenFile(out+".current", os.O_CREATE|os.O_RDWR|os.O_TRUNC, 0o644)
		if err != nil {
			return
		}
		journal = f
	}
	b, err := json.Marshal(c)
	if err != nil {
		return
	}
	journal.WriteAt(b, 0)
	journal.Truncate(int64(len(b)))
}

// Write writes the result to path.
func (r *Result) Write(path string) error {
	b, err := json.Marshal(r)
	if err != nil {
		return err
	}
	return os.WriteFile(path, b, 0o644)
}

// Rand is a seeded choice source.
type Rand struct{ *rand.Rand }

func New(seed uint64) Rand { return Rand{rand.New(rand.NewSource(int64(seed)))} }

func (r Rand) Pick(xs ...int) int     { return xs[r.Intn(len(xs))] }
func (r Rand) Chance(p float64) bool { return r.Float64() < p }

// Mix derives a sub-seed.
func Mix(parts ...interface{}) uint64 {
	h := sha256.Sum256([]byte(fmt.Sprint(parts...)))
	var x uint64
	for i := 0; i < 8; i++ {
		x = x<<8 | uint64(h[i])
	}
	return x
}

// Hash is a short content hash.
func Hash(v interface{}) string {
	b, _ := json.Marshal(v)
	h := sha256.Sum256(b)
	return fmt.Sprintf("%x", h[:8])
}

// Deadline helps batches stop within a wall-clock budget.
type Deadline struct{ t time.Time }

func Within(d time.Duration) Deadline { return Deadline{time.Now().Add(d)} }
func (d Deadline) Passed() bool      { return time.Now().After(d.t) }
