package interp

import (
	"encoding/gob"
	"fmt"
	"sort"
	"strings"

	"github.com/grailbio/bigslice"
)

// ArgStruct is a struct-typed Func parameter.
type ArgStruct struct {
	A int
	B string
	C []int
	M map[string]int
	P *ArgStruct
}

// ArgPtr is a struct that travels inside interface parameters as a pointer
// (gob cannot register a type both by value and by pointer).
type ArgPtr struct {
	A int
	B string
	M map[string]int
}

// Unregistered is a concrete type that is deliberately not registered with gob.
type Unregistered struct{ X int }

type unexportedOnly struct{ x int }

func init() {
	gob.Register(ArgStruct{})
	gob.Register(&ArgPtr{})
	gob.Register([]int(nil))
	gob.Register(map[string]int(nil))
}

// ArgSpec is a JSON description of an argument list for ArgFunc.
type ArgSpec struct {
	NShard int            `json:"nshard"`
	A      int            `json:"a"`
	S      string         `json:"s"`
	Xs     []int          `json:"xs"`              // nil = nil slice
	XsNil  bool           `json:"xs_nil,omitempty"` // pass an untyped nil
	M      map[string]int `json:"m"`
	MNil   bool           `json:"m_nil,omitempty"`
	St     ArgStruct      `json:"st"`
	Ps     *ArgStruct     `json:"ps"` // nil = nil pointer
	PsNil  bool           `json:"ps_untyped_nil,omitempty"`
	I      string         `json:"i"` // interface parameter: nil | int | string | struct | ptr | ints | map
	J      string         `json:"j"`
	// Bad selects an unencodable argument for ArgFuncBad: func | chan | unexported | unregistered | "" (none)
	Bad string `json:"bad,omitempty"`
}

func ifaceVal(kind string, seed int) interface{} {
	switch kind {
	case "int":
		return seed*3 + 1
	case "string":
		return fmt.Sprintf("iface-%d", seed)
	case "struct":
		return ArgStruct{A: seed, B: "in-iface", C: []int{seed, seed + 1}}
	case "ptr":
		return &ArgPtr{A: seed, B: "ptr-in-iface", M: map[string]int{"k": seed}}
	case "ints":
		return []int{seed, 2 * seed, 3 * seed}
	case "map":
		return map[string]int{"a": seed, "b": seed + 1}
	case "unregistered":
		return Unregistered{X: seed}
	case "nilptr":
		// A typed nil pointer held in the interface parameter.
		return (*ArgPtr)(nil)
	}
	return nil
}

// Args builds the argument list described by a.
func (a *ArgSpec) Args() []interface{} {
	args := []interface{}{a.NShard, a.A, a.S}
	if a.XsNil {
		args = append(args, nil)
	} else {
		args = append(args, a.Xs)
	}
	if a.MNil {
		args = append(args, nil)
	} else {
		args = append(args, a.M)
	}
	args = append(args, a.St)
	if a.PsNil {
		args = append(args, nil)
	} else {
		args = append(args, a.Ps)
	}
	args = append(args, ifaceVal(a.I, a.A), ifaceVal(a.J, a.A+7))
	return args
}

func renderStruct(s *ArgStruct, depth int) string {
	if s == nil {
		return "nil"
	}
	p := "nil"
	if s.P != nil && depth < 3 {
		p = renderStruct(s.P, depth+1)
	}
	return fmt.Sprintf("{A:%d B:%q C:%s M:%s P:%s}", s.A, s.B, renderInts(s.C), renderMap(s.M), p)
}

func renderInts(xs []int) string {
	// gob does not distinguish nil from empty slices; neither does the rendering.
	return fmt.Sprint(append([]int{}, xs...))
}

func renderMap(m map[string]int) string {
	ks := make([]string, 0, len(m))
	for k := range m {
		ks = append(ks, k)
	}
	sort.Strings(ks)
	var b strings.Builder
	b.WriteString("map[")
	for _, k := range ks {
		fmt.Fprintf(&b, "%s:%d ", k, m[k])
	}
	b.WriteString("]")
	return b.String()
}

func renderIface(v interface{}) string {
	switch x := v.(type) {
	case nil:
		return "<nil>"
	case int:
		return fmt.Sprintf("int(%d)", x)
	case string:
		return fmt.Sprintf("string(%q)", x)
	case ArgStruct:
		return "struct" + renderStruct(&x, 0)
	case *ArgPtr:
		if x == nil {
			// gob has no representation for a typed nil inside an interface: a nil
			// pointer is required to arrive as a nil, of whatever type.
			return "<nil>"
		}
		return fmt.Sprintf("ptr{A:%d B:%q M:%s}", x.A, x.B, renderMap(x.M))
	case []int:
		return "ints" + renderInts(x)
	case map[string]int:
		return "map" + renderMap(x)
	case Unregistered:
		return fmt.Sprintf("unregistered(%d)", x.X)
	}
	return fmt.Sprintf("?%T", v)
}

// RenderArgs renders an argument list canonically, as the Func sees it.
func RenderArgs(a int, s string, xs []int, m map[string]int, st ArgStruct, ps *ArgStruct, i, j interface{}) string {
	return fmt.Sprintf("a=%d s=%q xs=%s m=%s st=%s ps=%s i=%s j=%s", a, s, renderInts(xs), renderMap(m), renderStruct(&st, 0), renderStruct(ps, 0), renderIface(i), renderIface(j))
}

func argRows(nshard int, text string) bigslice.Slice {
	n := nshard * 3
	ids := make([]int, n)
	texts := make([]string, n)
	for k := range ids {
		ids[k] = k
		texts[k] = text
	}
	return bigslice.Const(nshard, ids, texts)
}

// ArgFunc returns rows that render its arguments as seen by whoever invoked it.
var ArgFunc = bigslice.Func(func(nshard int, a int, s string, xs []int, m map[string]int, st ArgStruct, ps *ArgStruct, i interface{}, j interface{}) bigslice.Slice {
	return argRows(nshard, RenderArgs(a, s, xs, m, st, ps, i, j))
})

// ArgFuncSlices takes slice-typed (interface) parameters, which receive Results or nil.
var ArgFuncSlices = bigslice.Func(func(nshard int, tag string, a bigslice.Slice, b bigslice.Slice) bigslice.Slice {
	describe := func(s bigslice.Slice) string {
		if s == nil {
			return "<nil>"
		}
		cols := make([]string, s.NumOut())
		for c := range cols {
			cols[c] = s.Out(c).String()
		}
		return fmt.Sprintf("slice(shards=%d cols=%s prefix=%d)", s.NumShard(), strings.Join(cols, ","), s.Prefix())
	}
	return argRows(nshard, fmt.Sprintf("tag=%q a=%s b=%s", tag, describe(a), describe(b)))
})

// ArgFuncBad has parameters of types that cannot be transported.
var ArgFuncBad = bigslice.Func(func(nshard int, f func(), c chan int, u unexportedOnly, i interface{}) bigslice.Slice {
	return argRows(nshard, fmt.Sprintf("f=%v c=%v u=%v i=%v", f != nil, c != nil, u, i))
})

// ArgFuncPass returns its slice argument as is; its other parameters may hold
// values that cannot be transported.
var ArgFuncPass = bigslice.Func(func(s bigslice.Slice, i interface{}) bigslice.Slice {
	return s
})

// PassArgs returns arguments for ArgFuncPass ("" = all encodable).
func PassArgs(s bigslice.Slice, bad string) []interface{} {
	var i interface{}
	switch bad {
	case "unexported":
		i = unexportedOnly{x: 3}
	case "unregistered":
		i = Unregistered{X: 5}
	}
	return []interface{}{s, i}
}

// BadArgs returns arguments for ArgFuncBad with one unencodable value.
func BadArgs(nshard int, bad string) []interface{} {
	var (
		f func()
		c chan int
		u unexportedOnly
		i interface{}
	)
	switch bad {
	case "func":
		f = func() {}
	case "chan":
		c = make(chan int)
	case "unexported":
		u = unexportedOnly{x: 3}
	case "unregistered":
		i = Unregistered{X: 5}
	}
	return []interface{}{nshard, f, c, u, i}
}
