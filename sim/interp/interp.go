// Package interp turns spec.Spec programs into real bigslice operator graphs.
// A small fixed set of registered bigslice.Funcs interprets Specs, so that the
// same Funcs exist on the driver and on every (simulated) worker.
package interp

import (
	"os"
	"bytes"
	"context"
	"encoding/gob"
	"fmt"
	"io"
	"io/ioutil"
	"reflect"
	"strings"
	"sync"
	"sync/atomic"

	"github.com/grailbio/bigslice"
	"github.com/grailbio/bigslice/frame"
	"github.com/grailbio/bigslice/metrics"
	"github.com/grailbio/bigslice/sliceio"
	"github.com/grailbio/bigslice/slicetype"

	"verifsim/spec"
)

// Obs is an observation made by a side-effecting user function.
type Obs struct {
	Site    string   `json:"site"`
	Kind    string   `json:"kind"` // "w": writer batch; "s": scanned rows of one scan call
	Shard   int      `json:"shard"`
	Attempt int64    `json:"attempt"`
	Rows    []string `json:"rows,omitempty"`
	Keys    []string `json:"keys,omitempty"` // key columns of each row (when Hooks.WantKeys)
	Err     string   `json:"err,omitempty"` // error passed to the writer / returned by the scanner
	EOF     bool     `json:"eof,omitempty"`
}

// Hooks connects user functions to the simulator.
type Hooks struct {
	// Point is called at each user-function call. It may sleep on the fake
	// clock, panic, or return an error (honoured only by functions that can
	// return errors). kind is "row" or "batch".
	Point func(ctx context.Context, site, kind, key string) error
	// Record receives observations.
	Record func(Obs)
	// WantKeys makes writer observations carry the key columns of each row.
	WantKeys bool
	// Partition may override a repartition function's result (bad-partition fault).
	Partition func(site, key string, nshard, p int) int
}

// H is the process-global hook table (all simulated machines share the process).
var H Hooks

const NumCounters = 24

// Counters are the user metrics incremented by per-row functions.
var Counters [NumCounters]metrics.Counter

var attemptSeq int64

func init() {
	for i := range Counters {
		Counters[i] = metrics.NewCounter()
	}
	gob.Register(spec.GobVal{})
	key := frame.FreshKey()
	frame.RegisterOps(func(slice []spec.CustomVal) frame.Ops {
		if os.Getenv("VERIF_CUSTOM_CODEC") == "gob" {
			// The other legitimate way to write a custom codec: hand the rows to the
			// stream's own gob encoder and decode IN PLACE into the column. gob leaves
			// fields that were zero on the wire untouched, so this decoder relies on
			// the destination rows being zeroed before it is called.
			return frame.Ops{
				Encode: func(e frame.Encoder, i, j int) error { return e.Encode(slice[i:j]) },
				Decode: func(d frame.Decoder, i, j int) error {
					dst := slice[i:j:j]
					if err := d.Decode(&dst); err != nil {
						return err
					}
					if len(dst) != j-i {
						return fmt.Errorf("custom codec: %d records for %d rows", len(dst), j-i)
					}
					if j > i && &dst[0] != &slice[i] {
						copy(slice[i:j], dst)
					}
					return nil
				},
			}
		}
		return frame.Ops{
			Encode: func(e frame.Encoder, i, j int) error {
				var b bytes.Buffer
				for _, v := range slice[i:j] {
					fmt.Fprintf(&b, "%d\x00%s\x01", v.X, v.S)
				}
				return e.Encode(b.Bytes())
			},
			Decode: func(d frame.Decoder, i, j int) error {
				var p *[]byte
				if d.State(key, &p) {
					*p = []byte{}
				}
				*p = (*p)[:0]
				if err := d.Decode(p); err != nil {
					return err
				}
				parts := bytes.Split(*p, []byte{1})
				if len(parts) != j-i+1 {
					return fmt.Errorf("custom codec: %d records for %d rows", len(parts)-1, j-i)
				}
				for k := i; k < j; k++ {
					f := bytes.SplitN(parts[k-i], []byte{0}, 2)
					if len(f) != 2 {
						return fmt.Errorf("custom codec: bad record")
					}
					var x int
					if _, err := fmt.Sscanf(string(f[0]), "%d", &x); err != nil {
						return err
					}
					slice[k] = spec.CustomVal{X: x, S: string(f[1])}
				}
				return nil
			},
		}
	})
}

var (
	typeOfInt   = reflect.TypeOf(0)
	typeOfError = reflect.TypeOf((*error)(nil)).Elem()
	typeOfCtx   = reflect.TypeOf((*context.Context)(nil)).Elem()
	typeOfBool  = reflect.TypeOf(false)
)

// ColType maps a universe column type name to its Go type.
func ColType(name string) reflect.Type {
	switch name {
	case "int":
		return typeOfInt
	case "int64":
		return reflect.TypeOf(int64(0))
	case "string", "p:string":
		return reflect.TypeOf("")
	case "uint8":
		return reflect.TypeOf(uint8(0))
	case "uint16":
		return reflect.TypeOf(uint16(0))
	case "float64":
		return reflect.TypeOf(float64(0))
	case "bool":
		return typeOfBool
	case "bytes", "p:bytes":
		return reflect.TypeOf([]byte(nil))
	case "[]int":
		return reflect.TypeOf([]int(nil))
	case "p:gob":
		return reflect.TypeOf(spec.GobVal{})
	case "p:custom":
		return reflect.TypeOf(spec.CustomVal{})
	}
	panic("interp: unknown column type " + name)
}

func colTypes(t spec.Type) []reflect.Type {
	out := make([]reflect.Type, len(t.Cols))
	for i, c := range t.Cols {
		out[i] = ColType(c)
	}
	return out
}

// SliceType returns the slicetype for t.
func SliceType(t spec.Type) slicetype.Type {
	return prefixedType{slicetype.New(colTypes(t)...), t.Prefix}
}

type prefixedType struct {
	slicetype.Type
	prefix int
}

func (p prefixedType) Prefix() int { return p.prefix }

func rowOf(vals []reflect.Value) spec.Row {
	r := make(spec.Row, len(vals))
	for i, v := range vals {
		r[i] = v.Interface()
	}
	return r
}

func valsOf(r spec.Row, types []reflect.Type) []reflect.Value {
	out := make([]reflect.Value, len(r))
	for i, v := range r {
		rv := reflect.ValueOf(v)
		if !rv.IsValid() {
			rv = reflect.Zero(types[i])
		}
		out[i] = rv
	}
	return out
}

func point(ctx context.Context, site, kind, key string) error {
	if H.Point == nil {
		return nil
	}
	return H.Point(ctx, site, kind, key)
}

func mustPoint(ctx context.Context, site, key string) {
	if err := point(ctx, site, "row", key); err != nil {
		// Functions without an error result can only panic.
		panic(err)
	}
}

func count(ctx context.Context, n *spec.Node, i int) {
	if n.NoCount {
		return
	}
	// Inside a bigslice.Scan callback the scanner's context is the user's
	// own, which carries no metrics scope; then nothing is counted (the
	// reference marks such nodes as unspecified).
	if sc := scopeOf(ctx); sc != nil {
		Counters[i%NumCounters].Incr(sc, 1)
	}
}

func scopeOf(ctx context.Context) (sc *metrics.Scope) {
	defer func() {
		if recover() != nil {
			sc = nil
		}
	}()
	return metrics.ContextScope(ctx)
}

func pragmas(n *spec.Node) []bigslice.Pragma {
	var ps []bigslice.Pragma
	for _, p := range n.Prag {
		switch {
		case p == "exclusive":
			ps = append(ps, bigslice.Exclusive)
		case p == "materialize":
			ps = append(ps, bigslice.ExperimentalMaterialize)
		case strings.HasPrefix(p, "procs:"):
			var k int
			fmt.Sscanf(p, "procs:%d", &k)
			ps = append(ps, bigslice.Procs(k))
		}
	}
	return ps
}

// rowFunc builds func(ctx, cols...) outs... by reflection.
func rowFunc(in, out []reflect.Type, f func(ctx context.Context, r spec.Row) []reflect.Value) interface{} {
	ft := reflect.FuncOf(append([]reflect.Type{typeOfCtx}, in...), out, false)
	return reflect.MakeFunc(ft, func(args []reflect.Value) []reflect.Value {
		ctx := args[0].Interface().(context.Context)
		return f(ctx, rowOf(args[1:]))
	}).Interface()
}

type rstate struct {
	rows  []spec.Row
	pos   int
	calls int
	init  bool
}

type wstate struct {
	attempt int64
}

// Build constructs the bigslice graph for s; args are slice arguments.
func Build(s *spec.Spec, args []bigslice.Slice) bigslice.Slice {
	ts, err := s.Types()
	if err != nil {
		panic(fmt.Sprintf("interp: ill-typed spec: %v", err))
	}
	ctx := context.Background()
	slices := make([]bigslice.Slice, len(s.Nodes))
	for i := range s.Nodes {
		i := i
		n := &s.Nodes[i]
		site := s.Site(i)
		t := ts[i]
		var in bigslice.Slice
		var inT spec.Type
		if len(n.In) > 0 {
			in = slices[n.In[0]]
			inT = ts[n.In[0]]
		}
		switch n.Op {
		case "const":
			cts := colTypes(t)
			cols := make([]reflect.Value, len(cts))
			for c := range cols {
				cols[c] = reflect.MakeSlice(reflect.SliceOf(cts[c]), n.N, n.N)
			}
			for j := 0; j < n.N; j++ {
				r := spec.SourceRow(n, j)
				for c := range cols {
					cols[c].Index(j).Set(reflect.ValueOf(r[c]))
				}
			}
			ifs := make([]interface{}, len(cols))
			for c := range cols {
				ifs[c] = cols[c].Interface()
			}
			slices[i] = bigslice.Const(n.Shards, ifs...)
		case "readerfunc":
			cts := colTypes(t)
			inTypes := []reflect.Type{typeOfCtx, typeOfInt, reflect.TypeOf((*rstate)(nil))}
			for _, ct := range cts {
				inTypes = append(inTypes, reflect.SliceOf(ct))
			}
			ft := reflect.FuncOf(inTypes, []reflect.Type{typeOfInt, typeOfError}, false)
			node := *n
			fn := reflect.MakeFunc(ft, func(a []reflect.Value) []reflect.Value {
				ctx := a[0].Interface().(context.Context)
				shard := int(a[1].Int())
				st := a[2].Interface().(*rstate)
				ret := func(k int, err error) []reflect.Value {
					ev := reflect.Zero(typeOfError)
					if err != nil {
						ev = reflect.ValueOf(err).Convert(typeOfError)
					}
					return []reflect.Value{reflect.ValueOf(k), ev}
				}
				if !st.init {
					st.init = true
					st.rows = spec.SourceShard(&node, shard)
				}
				if err := point(ctx, site, "batch", fmt.Sprintf("s%d@%d", shard, st.pos)); err != nil {
					return ret(0, err)
				}
				room := a[3].Len()
				want := room
				if len(node.Chunks) > 0 {
					want = node.Chunks[st.calls%len(node.Chunks)]
					// Never script an endless run of empty reads.
					if want == 0 && st.calls >= 4*len(node.Chunks) {
						want = 1
					}
				}
				st.calls++
				if want > room {
					want = room
				}
				rem := len(st.rows) - st.pos
				if want > rem {
					want = rem
				}
				for k := 0; k < want; k++ {
					r := st.rows[st.pos+k]
					for c := range cts {
						a[3+c].Index(k).Set(reflect.ValueOf(r[c]))
					}
				}
				st.pos += want
				if st.pos == len(st.rows) && (node.EOFData || want == 0) {
					return ret(want, sliceio.EOF)
				}
				return ret(want, nil)
			})
			slices[i] = bigslice.ReaderFunc(n.Shards, fn.Interface(), pragmas(n)...)
		case "scanreader":
			node := *n
			slices[i] = bigslice.ScanReader(n.Shards, func() (io.ReadCloser, error) {
				if err := point(ctx, site, "batch", "open"); err != nil {
					return nil, err
				}
				var b bytes.Buffer
				for j := 0; j < node.N; j++ {
					b.WriteString(spec.SourceRow(&node, j)[0].(string))
					b.WriteByte('\n')
				}
				return ioutil.NopCloser(&b), nil
			})
		case "arg":
			if n.Arg >= len(args) {
				panic("interp: missing slice argument")
			}
			slices[i] = args[n.Arg]
		case "readcache":
			slices[i] = bigslice.ReadCache(ctx, SliceType(t), n.Shards, n.Cache)
		case "map":
			node := *n
			outT := t
			f := rowFunc(colTypes(inT), colTypes(t), func(ctx context.Context, r spec.Row) []reflect.Value {
				mustPoint(ctx, site, spec.CanonRow(r))
				count(ctx, &node, i)
				return valsOf(spec.MapRow(node.Fn, node.M, inT, outT, r), colTypes(outT))
			})
			slices[i] = bigslice.Map(in, f, pragmas(n)...)
		case "filter":
			node := *n
			f := rowFunc(colTypes(inT), []reflect.Type{typeOfBool}, func(ctx context.Context, r spec.Row) []reflect.Value {
				mustPoint(ctx, site, spec.CanonRow(r))
				count(ctx, &node, i)
				return []reflect.Value{reflect.ValueOf(spec.FilterRow(node.M, r))}
			})
			slices[i] = bigslice.Filter(in, f, pragmas(n)...)
		case "flatmap":
			node := *n
			cts := colTypes(t)
			outs := make([]reflect.Type, len(cts))
			for c := range cts {
				outs[c] = reflect.SliceOf(cts[c])
			}
			f := rowFunc(colTypes(inT), outs, func(ctx context.Context, r spec.Row) []reflect.Value {
				mustPoint(ctx, site, spec.CanonRow(r))
				count(ctx, &node, i)
				rows := spec.FlatmapRow(node.M, r)
				cols := make([]reflect.Value, len(cts))
				for c := range cols {
					cols[c] = reflect.MakeSlice(outs[c], len(rows), len(rows))
					for k, row := range rows {
						cols[c].Index(k).Set(reflect.ValueOf(row[c]))
					}
				}
				return cols
			})
			slices[i] = bigslice.Flatmap(in, f, pragmas(n)...)
		case "head":
			slices[i] = bigslice.Head(in, n.M)
		case "prefixed":
			slices[i] = bigslice.Prefixed(in, n.M)
		case "reshuffle":
			slices[i] = bigslice.Reshuffle(in)
		case "reshard":
			slices[i] = bigslice.Reshard(in, n.Shards)
		case "repartition":
			node := *n
			f := reflect.MakeFunc(
				reflect.FuncOf(append([]reflect.Type{typeOfCtx, typeOfInt}, colTypes(inT)...), []reflect.Type{typeOfInt}, false),
				func(a []reflect.Value) []reflect.Value {
					ctx := a[0].Interface().(context.Context)
					nshard := int(a[1].Int())
					r := rowOf(a[2:])
					key := spec.CanonRow(r)
					mustPoint(ctx, site, key)
					p := spec.PartitionRow(node.Fn, nshard, r)
					if H.Partition != nil {
						p = H.Partition(site, key, nshard, p)
					}
					return []reflect.Value{reflect.ValueOf(p)}
				}).Interface()
			slices[i] = bigslice.Repartition(in, f)
		case "reduce":
			node := *n
			slices[i] = bigslice.Reduce(in, func(ctx context.Context, a, b int) int {
				mustPoint(ctx, site, fmt.Sprintf("%d,%d", a, b))
				return spec.Combine(node.Fn, a, b)
			})
		case "fold":
			node := *n
			ins := append([]reflect.Type{typeOfInt}, colTypes(inT)[1:]...)
			f := rowFunc(ins, []reflect.Type{typeOfInt}, func(ctx context.Context, r spec.Row) []reflect.Value {
				mustPoint(ctx, site, spec.CanonRow(r))
				// r[0] is the accumulator; FoldStep ignores its row's first column.
				return []reflect.Value{reflect.ValueOf(spec.FoldStep(node.Fn, r[0].(int), r))}
			})
			slices[i] = bigslice.Fold(in, f)
		case "cogroup":
			ins := make([]bigslice.Slice, len(n.In))
			for k, x := range n.In {
				ins[k] = slices[x]
			}
			slices[i] = bigslice.Cogroup(ins...)
		case "cache":
			slices[i] = bigslice.Cache(ctx, in, n.Cache)
		case "cachepartial":
			slices[i] = bigslice.CachePartial(ctx, in, n.Cache)
		case "writerfunc":
			cts := colTypes(inT)
			inTypes := []reflect.Type{typeOfCtx, typeOfInt, reflect.TypeOf((*wstate)(nil)), typeOfError}
			for _, ct := range cts {
				inTypes = append(inTypes, reflect.SliceOf(ct))
			}
			ft := reflect.FuncOf(inTypes, []reflect.Type{typeOfError}, false)
			pos := new(sync.Map) // attempt -> rows seen
			fn := reflect.MakeFunc(ft, func(a []reflect.Value) []reflect.Value {
				ctx := a[0].Interface().(context.Context)
				shard := int(a[1].Int())
				st := a[2].Interface().(*wstate)
				if st.attempt == 0 {
					st.attempt = atomic.AddInt64(&attemptSeq, 1)
				}
				ob := Obs{Site: site, Kind: "w", Shard: shard, Attempt: st.attempt}
				if e, _ := a[3].Interface().(error); e != nil {
					if e == sliceio.EOF {
						ob.EOF = true
					} else {
						ob.Err = e.Error()
					}
				}
				k := a[4].Len()
				for j := 0; j < k; j++ {
					r := make(spec.Row, len(cts))
					for c := range cts {
						r[c] = a[4+c].Index(j).Interface()
					}
					ob.Rows = append(ob.Rows, spec.CanonRow(r))
					if H.WantKeys {
						ob.Keys = append(ob.Keys, spec.KeyCanon(r, inT.Prefix))
					}
				}
				if H.Record != nil {
					H.Record(ob)
				}
				seen, _ := pos.LoadOrStore(st.attempt, new(int))
				p := seen.(*int)
				err := point(ctx, site, "batch", fmt.Sprintf("s%d@%d", shard, *p))
				*p += k
				ev := reflect.Zero(typeOfError)
				if err != nil {
					ev = reflect.ValueOf(err).Convert(typeOfError)
				}
				return []reflect.Value{ev}
			})
			slices[i] = bigslice.WriterFunc(in, fn.Interface())
		case "scan":
			cts := colTypes(inT)
			slices[i] = bigslice.Scan(in, func(shard int, sc *sliceio.Scanner) error {
				ctx := context.Background()
				ob := Obs{Site: site, Kind: "s", Shard: shard, Attempt: atomic.AddInt64(&attemptSeq, 1)}
				ptrs := make([]interface{}, len(cts))
				vals := make([]reflect.Value, len(cts))
				for c := range cts {
					vals[c] = reflect.New(cts[c])
					ptrs[c] = vals[c].Interface()
				}
				var ferr error
				for sc.Scan(ctx, ptrs...) {
					r := make(spec.Row, len(cts))
					for c := range cts {
						r[c] = vals[c].Elem().Interface()
					}
					if err := point(ctx, site, "batch", fmt.Sprintf("s%d@%d", shard, len(ob.Rows))); err != nil {
						ferr = err
						break
					}
					ob.Rows = append(ob.Rows, spec.CanonRow(r))
				}
				if ferr == nil {
					if err := sc.Err(); err != nil {
						ob.Err = err.Error()
						ferr = err
					} else {
						ob.EOF = true
						if err := point(ctx, site, "batch", fmt.Sprintf("s%d@eof", shard)); err != nil {
							ferr = err
						}
					}
				}
				if H.Record != nil {
					H.Record(ob)
				}
				return ferr
			})
		default:
			panic("interp: unknown op " + n.Op)
		}
	}
	return slices[len(slices)-1]
}

// The registered Funcs. Their order of definition is their index.
var (
	Prog0 = bigslice.Func(func(s spec.Spec) bigslice.Slice { return Build(&s, nil) })
	Prog1 = bigslice.Func(func(s spec.Spec, a bigslice.Slice) bigslice.Slice {
		return Build(&s, []bigslice.Slice{a})
	})
	Prog2 = bigslice.Func(func(s spec.Spec, a, b bigslice.Slice) bigslice.Slice {
		return Build(&s, []bigslice.Slice{a, b})
	})
)

// ScanAll reads every row of a scanner for a slice of type t.
func ScanAll(ctx context.Context, t spec.Type, sc *sliceio.Scanner) ([]spec.Row, error) {
	return ScanAllPaced(ctx, t, sc, nil)
}

// ScanAllPaced is ScanAll with a consumer that may take its time: each is called
// with the number of rows received so far, after every row.
func ScanAllPaced(ctx context.Context, t spec.Type, sc *sliceio.Scanner, each func(n int)) ([]spec.Row, error) {
	cts := colTypes(t)
	ptrs := make([]interface{}, len(cts))
	vals := make([]reflect.Value, len(cts))
	for c := range cts {
		vals[c] = reflect.New(cts[c])
		ptrs[c] = vals[c].Interface()
	}
	var rows []spec.Row
	for sc.Scan(ctx, ptrs...) {
		r := make(spec.Row, len(cts))
		for c := range cts {
			v := vals[c].Elem()
			// Copy reference types: the scanner may reuse the storage.
			switch x := v.Interface().(type) {
			case []byte:
				r[c] = append([]byte{}, x...)
			case []int:
				r[c] = append([]int{}, x...)
			case spec.GobVal:
				x.C = append([]int(nil), x.C...)
				r[c] = x
			default:
				r[c] = x
			}
		}
		rows = append(rows, r)
		if each != nil {
			each(len(rows))
		}
	}
	return rows, sc.Err()
}
