#!/bin/bash
# Builds the simulation binaries from /repo's current working tree.
# usage: build.sh [target...]   (targets: world cgo orch comp race; default: world cgo orch comp)
set -euo pipefail
V=/verif
W=$V/.work
export GOFLAGS=-mod=mod GOPROXY=off GOSUMDB=off GOTOOLCHAIN=local
"$V/bin/prepare.sh"
cd "$V/sim"
targets="${*:-world cgo orch comp}"
for t in $targets; do
  case $t in
    world)
      # CGO off: base/compress/zstd then uses the pure-Go klauspost codec. With cgo it uses
      # DataDog/zstd v1.4.1, whose buffer-less streaming writer corrupts streams when the
      # caller reuses its write buffer (as encoding/gob does); see DESIGN.md and known_findings.txt.
      CGO_ENABLED=0 go1.26.8 test -c -tags verif -overlay "$W/overlay/overlay.json" -o "$W/bin/world.test" ./world ;;
    cgo)
      CGO_ENABLED=1 go1.26.8 test -c -tags verif -overlay "$W/overlay/overlay.json" -o "$W/bin/world.cgo.test" ./world ;;
    race)
      go1.26.8 test -c -race -gcflags=all=-d=checkptr=0 -tags verif -overlay "$W/overlay/overlay.json" -o "$W/bin/world.race.test" ./world ;;
    orch)
      go1.26.8 build -tags verif -overlay "$W/overlay/overlay_nort.json" -o "$W/bin/orch" ./cmd/orch ;;
    comp)
      for p in $(ls comp 2>/dev/null); do
        go1.26.8 test -c -tags verif -overlay "$W/overlay/overlay.json" -o "$W/bin/comp-$p.test" "./comp/$p"
      done ;;
  esac
done
