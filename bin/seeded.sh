#!/bin/bash
# Runs the quick checks against the seeded mutants in /verif/seeded/<id>/ (one at a time:
# apply to /repo, run, restore) and records per mutant which checks were run and which
# reported a violation, in its meta.json. usage: bin/seeded.sh [<id> <prop> [<prop>...]]...
# With no arguments runs the default table below.
V=/verif
table=(
 "C01-1 C01 C04" "C01-2 C01 C04"
 "C02-1 C02" "C02-2 C02 C10"
 "C03-1 C03" "C03-2 C03"
 "C04-1 C04 C09" "C04-2 C04 C07"
 "C05-1 C05 C08" "C05-2 C05"
 "C06-1 C06" "C06-2 C06 C03"
 "C07-1 C07" "C07-2 C07"
 "C08-1 C08 C12" "C08-2 C08 C12"
 "C09-1 C09 C04" "C09-2 C09"
 "C10-1 C10" "C10-2 C10"
 "C12-1 C12" "C12-2 C12"
 "C13-1 C13" "C13-2 C13"
 "C14-1 C14" "C14-2 C14"
 "C15-1 C15" "C15-2 C15"
 "C16-1 C16" "C16-2 C16"
 "C17-1 C17 C07" "C17-2 C17 C01"
 "C19-1 C19" "C19-2 C19 C12"
 "C20-1 C20" "C20-2 C20"
)
[ $# -gt 0 ] && table=("$*")
for row in "${table[@]}"; do
  set -- $row; id=$1; shift
  [ -f "$V/seeded/$id/patch.diff" ] || { echo "no such mutant $id"; continue; }
  "$V/bin/mutate.sh" "$V/seeded/$id/patch.diff" "$@" | tee "$V/.work/logs/seeded-$id.log"
  python3 - "$V/seeded/$id/meta.json" "$V/.work/logs/seeded-$id.log" <<'PY'
import json,re,sys
m=json.load(open(sys.argv[1]))
run=set(m.get("checks_run",[])); det=set(m.get("detected_by",[])); cls=m.get("detected_as",{})
cur=None
for l in open(sys.argv[2],errors="replace"):
    g=re.match(r"MUTATE patch=\S+ property=(\S+) exit=(\d+)",l)
    if g:
        cur=g.group(1); run.add(cur+" quick")
        det.discard(cur+" quick")
        if g.group(2)=="1": det.add(cur+" quick")
        continue
    g=re.match(r"\s+class=(\S+)",l)
    if g and cur: cls.setdefault(cur,[]);  cls[cur]=sorted(set(cls[cur]+[g.group(1)]))
m["checks_run"]=sorted(run); m["detected_by"]=sorted(det); m["detected_as"]={k:v for k,v in cls.items() if k+" quick" in det}
json.dump(m,open(sys.argv[1],"w"),indent=1)
PY
done
