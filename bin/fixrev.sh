#!/bin/bash
# Re-introduces each repaired defect (reverse of its fix: commit) and runs the quick check(s)
# that should report it. Prints one MUTATE line per run. Leaves /repo unchanged.
V=/verif
run() { "$V/bin/mutate.sh" "$V/seeded/fixrev-$1/patch.diff" "${@:2}"; }
run a33d953 C01
run 36644b2 C01
run c1349e5 C12
run d42772e C06
run 748b16a C06
run b0d088a C12
run fe89a07 C12
run 54b0fe6 C12
run 5ba7028 C13
run 3bce262 C13 C06
run 15f7f33 C03
run 50a6e8e C07
run 4ed5e10 C17
run 1d84a73 C17
run 42bfb34 C15
run 39bcf99 C15
run cec9fd1 C14
run 3d85791 C16
run 8770d99 C06
run 77b5bb7 C13
run 695264f C20
run 859808a C02
# The two data races below are visible to the race detector only (C19 thorough tier, every third case):
#   MUTATE_FULL=1 is not needed; run: git -C /repo apply seeded/fixrev-02541ed/patch.diff; bin/verif check C19 --tier thorough; git -C /repo checkout -- .
# run 02541ed C19   (thorough)
# run 9e2b8a1 C19   (thorough)
