#!/bin/bash
# Runs every registered check of one tier in sequence; prints one line per check.
# usage: bin/runall.sh [quick|thorough] [IDs...]
V="$(cd "$(dirname "$0")/.." && pwd)"
tier="${1:-quick}"; shift
ids=("$@")
[ ${#ids[@]} -eq 0 ] && ids=(C01 C02 C03 C04 C05 C06 C07 C08 C09 C10 C12 C13 C14 C15 C16 C17 C19 C20)
mkdir -p "$V/.work/logs"
date
for p in "${ids[@]}"; do
  s=$(date +%s)
  "$V/bin/verif" check "$p" --tier "$tier" > "$V/.work/logs/$p.$tier.log" 2>&1; e=$?
  echo "$p exit=$e $(( $(date +%s) - s ))s $(grep -ac '^VIOLATION' "$V/.work/logs/$p.$tier.log") viol $(grep -ac '^KNOWN-FINDING' "$V/.work/logs/$p.$tier.log") known"
done
date
