#!/usr/bin/env python3
"""Generates /verif/MANIFEST.json from the table below (kept in one place so
that it always validates)."""
import json, subprocess, sys

WHOLE = "trusted base: dependency shims listed in evidence.assumptions (base v0.0.9 + 4 API additions + channel-waiting once.Task; bigmachine v0.5.8 + 1 rpc arg case), go.mod/exec/config.go overlays, go1.26.8 with the seeded runtime rand/select overlay, testing/synctest fake clock, the in-process simnet transport (real rpc client/server, no sockets), all machines in one OS process; the reference evaluator in sim/spec written from operator docs; sampling, not enumeration"

COMP = "trusted base: dependency shims (base v0.0.9 + API additions, overlays), go1.26.8; the component under test is real code driven through its exported (or build-tag-exported) interface; its environment (executor / byte channel / upstream readers / consumer) is the simulator; sampling, not enumeration, except where the rule says exhaustive"

CHECKS = {
 "C01": dict(level="exploration", engine="world",
   text="Seeded deterministic simulation of the whole system (driver, bigmachine workers over the simulated network, fake clock) running grammar-generated operator DAGs failure-free on both executors; scanned rows, WriterFunc/Scan observations and user counters are compared with a sequential reference evaluator. Exploration: thousands of distinct programs x configurations x schedules per run; a clean batch is evidence, not proof. Every ninth program is a fan-out shape (one slice consumed directly and through shuffles of different widths, combiners, partitioners and key prefixes), every ninth a stream-consumer shape (a cluster task reading one encoded stream of shrinking batches through Filter/Flatmap).",
   design="§6 C01", technique="deterministic simulation, seeded schedule/program search, reference-model oracle", note=WHOLE),
 "C02": dict(level="fault_enumeration", engine="world",
   text="Whole-system simulation with machine kills injected at named RPC seam events: for each base program of the fault suite a sweep runs one world per (seam event of the fault-free run x {kill callee, kill each other machine, drop the Worker.Run reply}); seeded plans add 1-4 faults (kill, drop, stall past the keepalive timeout, cut-stream) with and without replacement machines. Oracle: success with reference rows, or an error; rows delivered before a scan error are genuine; no hang in 4h simulated; success required when capacity to recover remains. Enumeration is over the seam events of the sampled programs, not over all programs. Machines also die in the MIDDLE of streamed Worker.Read bodies (fault cutkill: deliver k bytes, fail the stream, kill the serving machine) at 1/4, 1/2, 3/4 of every body and exactly on gob message boundaries (every batch boundary is one); fixed scan-resume programs (Fold output / map-only output), a range-clustered Reduce (one stream left in the reduce-side merge) and programs whose combining tasks read over the network are swept that way. A scan that cannot resume because the recomputed shard differs is a known finding of its own class (scan-not-resumable); the silent variant of it was a genuine defect, repaired in /repo.",
   design="§6 C02", technique="deterministic simulation with fault injection: single-fault sweep over RPC seam events + seeded multi-fault plans", note=WHOLE),
 "C06": dict(level="fault_enumeration", engine="world",
   text="User-function failures injected as faults (error / temporary error / panic / out-of-range partition; persistent or one-shot; first row, vector boundary, last row, end-of-stream) at every user-function site of three template programs, on four executor configurations, enumerated completely and then re-sampled under other seeds; each case is its own OS process so a driver crash is observed as such. Oracle: Run returns an error carrying the injected marker (reader/writer errors, all panics), temporary one-shot failures do not fail the run, the session stays usable, no hang. A fourth template puts reader/writer functions in tasks that feed a shuffle without a combiner; discard-cycle scenarios: a source that fails temporarily on the first attempt of every re-execution while its Result is discarded and consumed again 5-7 times (every run must succeed).",
   design="§6 C06", technique="deterministic simulation with fault injection: enumerated user-function fault cross product, process-isolated runs", note=WHOLE),
 "C04": dict(level="exploration", engine="world",
   text="Differential simulation: each generated program runs in 9 separately simulated worlds, one per execution strategy (local p=1/p=8, cluster 1x1 and 4x2, machine combiners, tiny vector size, tiny vector + sort canary + reader shuffling, Materialize/Procs/Exclusive pragmas, a random configuration), under seeded schedules; rows must equal the reference in every world and agree across the group; user counters must equal the model's call counts in every world. One group in eight is a stream-consumer shape (the codec path only the cluster executor takes).",
   design="§6 C04", technique="deterministic simulation, configuration swarm, differential + reference-model oracle", note=WHOLE),
 "C05": dict(level="exploration", engine="world",
   text="Simulated distributed runs record (shard,key) right after every redistributing operator; co-location is an invariant of each run, and the key->shard table must agree across groups of 8 runs (separate OS processes) that differ in operator, producer count/kind, vector size, executor, cluster shape and seeds; thorough tier covers the full 8- and 16-bit key ranges. The quantification over key values is input enumeration carried by the simulator (said so in DESIGN). One member of each group redistributes the two-column-keyed Result of an earlier invocation through a one-column view. Thorough re-runs half of the local-executor members under the race detector (in race runs the harness hook inside user functions touches no shared state, so that it orders nothing).",
   design="§6 C05", technique="deterministic simulation, cross-process placement-table agreement, invariant monitor", note=WHOLE),
 "C08": dict(level="exploration", engine="world",
   text="In every simulated cluster run the task graph compiled by each worker (read from the live worker through a tagged accessor) is compared with the driver's, with a recompilation and with a compilation after a gob round trip of the invocation; a well-formedness oracle stated from the property is evaluated on the driver graph; graph digests are compared across groups of 4 separately started processes with different seeded map/select orders. Programs include fan-out shapes (one source, Materialize source or reused Result consumed directly and by shuffles of different widths, combiners and partitioners at once); a dependency must be wired as a shuffle exactly when the slice graph says so. A Result is also consumed through a Prefixed view by pipelined and shuffling operators (the new invocation's tasks must start at the Result whatever wraps it); fan-out under different key prefixes.",
   design="§6 C08", technique="deterministic simulation with seeded runtime randomness, invariant monitor on live driver/worker state, cross-process digest agreement", note=WHOLE),
 "C12": dict(level="exploration", engine="world",
   text="Seeded client histories (run, scan, scan||scan, run over 1-2 earlier Results through pipelined or redistributing operators, discard, discard||run, kill machine) on both executors in one simulated session; every Result is modelled by the reference rows of its program over its arguments' model rows; every successful scan must equal the model, Funcs run after discards/kills must succeed, nothing may hang. Network delays on Worker.Discard/Run decide the discard/run interleavings. A slow consumer keeps a Scanner open part-way through a result while it is discarded (and consumed again): the scan delivers exactly the rows or an error.",
   design="§6 C12", technique="deterministic simulation, seeded operation histories against a reference model", note=WHOLE),
 "C19": dict(level="exploration", engine="world",
   text="2-5 concurrent client goroutines in one simulated session share base results (runs through pipelined and redistributing operators, scans, optional discard); seeded virtual delays at RPC seams, in user functions and at the simhook yield points order the elections and wake-ups; each successful scan equals the reference of its program as if alone; a yield-hook monitor checks that no task has two Executor.Run calls in flight; thorough tier re-runs every third case under the race detector (race reports with /repo frames are violations). Also: one client cancels its run part-way (after a simulated duration or after the n-th simulator event) over a freshly discarded shared result, and overlapping results are discarded twice; the other clients must be served as if alone; a goroutine blocked for good on a mutex inside bigslice (real-time stall, goroutine dump analysed, case re-run) is reported as deadlock.",
   design="§6 C19", technique="deterministic simulation with seeded yield/delay schedules, reference-model oracle, in-flight monitor, race detector in thorough tier", note=WHOLE),
 "C13": dict(level="fault_enumeration", engine="world",
   text="Two-process cache histories on a simulated file system (base/file scheme simfs://, commit-on-close semantics): process 1 runs a program with a Cache/CachePartial operator clean, or with an error / short write / sticky error at the k-th create, write, close or stat of the cache files, or with a crash-stop at the k-th file operation (the process exits; only published files survive in a snapshot), or with a machine kill or a reader error; process 2 starts from the surviving files (optionally minus a subset) and runs the same program. Oracles: rows equal the reference, every published shard file decodes with the real decoder to exactly its shard's reference rows at the start and end of every process, process 2 succeeds, cached shards are not recomputed (user-function call counts). Fault positions are seeded, not exhaustively swept, in the quick tier. After a fault-free run that succeeded (and no Head downstream) every shard's file — also of shards without rows — must exist, or the next run cannot skip the computation; caches are also placed directly on a materialized input (first operator of its task).",
   design="§6 C13", technique="deterministic simulation with disk fault injection and crash-restart across OS processes, durable-state invariant + reference-model oracle", note=WHOLE + "; built with CGO_ENABLED=0 (klauspost zstd) except the one recorded reproduction of the DataDog-zstd dependency finding"),
 "C03": dict(level="exploration", engine="comp",
   text="The real exec.Eval is driven by a simulated Executor that decides every task outcome at quiescent points of a synctest bubble (OK / LOST / fatal, via RUNNING or not, loss of completed tasks, a second evaluation over overlapping roots) over seeded task graphs with initial states as earlier evaluations leave them; safety and progress oracles are evaluated over the recorded history with event sequence numbers (dependencies OK in the window before each hand-out, single hand-out, only needed tasks, nil only if all roots were OK, give-up limit, something always in flight, termination after faults stop). ~200k scenarios per quick run.",
   design="§6 C03", technique="deterministic simulation of the evaluator against a simulated executor: seeded outcome/fault histories, history oracles, shrinking", note=COMP),
 "C07": dict(level="fault_enumeration", engine="comp",
   text="Real encoder -> simulated byte channel -> real decoder. For every generated small stream (<= 600 bytes) every single-bit flip and every truncation point is enumerated; large streams get seeded damage restricted to classes a CRC-32 must detect, plus truncations, short reads and EOF vs unexpected-EOF at the cut. Oracle: delivered rows are exactly the written rows in order; damage gives a non-EOF error and no row of a later batch. Half of the processes register the custom column codec in its in-place gob variant, which relies on destination rows being zeroed before user decoders run.",
   design="§6 C07", technique="fault injection on a simulated byte channel: exhaustive single-bit/truncation sweep of small streams + seeded damage of large ones", note=COMP),
 "C10": dict(level="exploration", engine="comp",
   text="sortio.SortReader / NewMergeReader / Reduce over simulated upstream readers (chunking, empty reads, rows-with-EOF, injected read error at the k-th read) with spill targets from 1 byte and per-process vector/canary/spill-batch sizes from 1 up; oracles: sorted multiset / sorted union / one folded row per key; injected errors are reported, never replaced by EOF; no spill directory survives the constructor.",
   design="§6 C10", technique="deterministic simulation of upstream readers and consumer with fault injection (read errors), randomised size knobs, durable-state (spill dir) inspection", note=COMP),
 "C17": dict(level="exploration", engine="comp",
   text="Every library and operator reader is driven by a simulated upstream (scripted chunking incl. empty non-EOF reads and rows-with-EOF, injected read errors) and a simulated consumer (seeded destination sizes, poisoned destination frames taken as views at an offset); oracles: count bounds, nothing written outside the returned rows or the view, same row sequence for every chunking pair, earlier frames unchanged, sticky EOF, errors propagated; scanner arity/type rejection. The stream encoder/decoder pair is one of the readers (batches of growing and shrinking sizes).",
   design="§6 C17", technique="deterministic simulation of upstream/consumer around each reader, seeded chunkings, poison-frame oracle", note=COMP),
 "C09": dict(level="exploration", engine="comp",
   text="The combining frame is fed EVERY key sequence up to a length bound over a 4-key alphabet into tables of initial size 1..8 (all probe sequences, resizes and compaction orders of a size-8 table) plus seeded streams; the spilling combiner is fed by 1-4 simulated producer tasks in a seeded interleaving with spill thresholds from 1 key upward and per-process vector sizes, read back through Reader or WriteTo+decoder or discarded; oracle: one row per key, ascending order, value == fold, no spill directory left. No fault dimension (the spiller has no seam); said so in DESIGN. A read-back fault (a spill file that cannot be opened) must be reported and must not leave spill directories behind. A reproducible crash or hang of the code under test is a violation. Rare hot-key cases combine one or two keys 66 000-140 000 times into a table that never spills.",
   design="§6 C09", technique="component simulation: seeded producer interleavings and size knobs, bounded-exhaustive key sequences, durable-state inspection", note=COMP),
 "C14": dict(level="exploration", engine="comp",
   text="Two layers. The real machineManager.Do runs over the simulated bigmachine system under a fake clock and is driven by seeded offer/cancel/done(ok|remote|transport)/kill/time-advance histories; capacity, probation, dead-machine, ordering (single-machine steps only), conservation and machine-count oracles use grants and returns only. In addition a whole-system monitor observes the driver's assignment intervals (offered/returned yield points) in simulated cluster runs with Procs/Exclusive pragmas, exclusive Funcs and faults on every step of a task run, and the local executor's concurrency inside user functions. Scenarios with several machines on probation at once, one of them dying; a reproducible crash of the manager goroutine is a violation. Whole-system part: tasks failing in user code (persistent panic in a reduce function wherever it is called from, reader errors) are exit paths too; a fault-free run afterwards has to find all capacity returned, on both executors.",
   design="§6 C14", technique="deterministic simulation of the live manager with fault injection (machine kills, transport errors, clock), invariant monitor on whole-system runs", note=COMP + "; " + WHOLE),
 "C15": dict(level="fault_enumeration", engine="comp",
   text="File and memory task stores over the simulated disk: sequential histories checked against a map model, each re-run with an error at EVERY file operation of its fault-free run and a short write at every write; concurrent clients stepped one file operation at a time by a seeded scheduler and checked with porcupine against a nondeterministic register model; the retrying remote reader over a scripted opener with a fake clock, exhaustive over failure positions for short streams with <= 3 failures. Keys name (task, partition) entries, so tasks with several partitions are written, read and discarded in any order.",
   design="§6 C15", technique="disk fault enumeration on a simulated file system, cooperative scheduling + porcupine linearizability, exhaustive failure scripts for the retry reader", note=COMP),
 "C16": dict(level="exploration", engine="world",
   text="Funcs whose rows render their arguments as seen by the invoking process are run on the simulated cluster (and locally) with seeded argument lists over scalars, slices, maps, structs, pointers, interface parameters, nil values, Results and nested Results; rows must render the driver's arguments, worker graphs must equal the driver's; unencodable arguments must give an error with no repeated Worker.Run/Compile; registry skew is injected as a transport fault on the FuncLocations reply and must be refused iff the lists differ; the FuncLocationsDiff law is checked exhaustively for lists up to length 5 (pure side-oracle). Also: Results reachable directly and through other Result arguments with the last invocation landing on machines that ran nothing before; an invocation that is never run itself (its Func returns its Result argument) carrying an unencodable argument must fail at once when its Result is used, and no task may be submitted to the executor twice in a run without injected faults. A transient loss of the request or reply of a Worker.Compile must leave the invocation intact on retry; typed nil pointers inside interface parameters; the capacity monitor rides along on cluster runs.",
   design="§6 C16", technique="deterministic simulation: argument transport over the simulated network, registry skew as a transport fault, seam-log oracle for retries", note=WHOLE),
 "C20": dict(level="exploration", engine="comp",
   text="Scope operations (Incr/Value/Merge) from 2-4 logical threads are stepped one yield point at a time (before each load/CAS that creates scope storage or instances) by a seeded scheduler and checked with porcupine per (scope, counter); merge/reset/gob laws on seeded scopes; the end-to-end total is checked by a whole-system batch on both executors (counters of a Result, also over a reused Result, == the reference's per-row call counts). In 3 of 10 cluster runs the reply of one Worker.Run is dropped in transit (no machine lost) and the totals must be unchanged.",
   design="§6 C20", technique="cooperative scheduling at yield points + porcupine; whole-system reference-model oracle for totals", note=COMP + "; " + WHOLE),
}

NOT_APPLICABLE = {
 "C11": "pure single-threaded in-memory data structure (frame views): no schedule, clock, I/O, fault or second party for a simulator to control; deciding it is input generation against a slice-of-rows model, which this technique family does not dress up as simulation (DESIGN §9)",
 "C18": "pure function from (slice type, function signature) to accept/reject at construction time: nothing for a scheduler or fault injector to decide (DESIGN §9)",
}

PENDING = "check not built yet at this commit (work in progress; see DESIGN §10 for the order of work)"

def main():
    props = [json.loads(l)["id"] for l in open("/verif/properties.jsonl")]
    checks = []
    for pid in props:
        c = CHECKS.get(pid)
        if not c:
            continue
        checks.append({
            "property_id": pid,
            "quick_cmd": f"./bin/verif check {pid} --tier quick",
            "thorough_cmd": f"./bin/verif check {pid} --tier thorough",
            "evidence_file": f"/verif/evidence/{pid}.json",
            "replay_cmd_template": "./bin/verif replay {path}",
            "engine": c["engine"],
            "level_claimed": {"category": c["level"], "text": c["text"], "design_ref": c["design"]},
            "level_note": c["note"],
            "technique": c["technique"],
        })
    na = []
    for pid in props:
        if pid in CHECKS:
            continue
        na.append({"property_id": pid, "reason": NOT_APPLICABLE.get(pid, PENDING)})
    try:
        commits = subprocess.check_output(["git", "-C", "/repo", "log", "--format=%H %s"], text=True).splitlines()
        hooks = [l.split()[0] for l in commits if l.split(" ", 1)[1].startswith("verif hook")]
    except Exception:
        hooks = []
    m = {
        "version": 1,
        "setup_cmd": "./bin/verif setup",
        "hooks": {
            "guard": "verif",
            "enable": "go1.26.8 test -c -tags verif -overlay /verif/.work/overlay/overlay.json (see bin/build.sh)",
            "baseline_off_cmd": "for m in $(cat /w/out/gomods.txt); do MF=$(cd /repo/$m && . /w/out/goenv.sh && gomodflag); (cd /repo/$m && go test $MF -json -vet=off -count=1 -timeout 25m ./...); done",
            "source_commits": hooks,
            "add_only": True,
        },
        "engines": [
            {"name": "world", "path": "sim/world", "serves_properties": [p for p in props if CHECKS.get(p, {}).get("engine") == "world"],
             "kind_free_text": "whole-system deterministic simulation: one OS process per simulated world inside a testing/synctest bubble; simnet transport, seeded delays and fault plans; orchestrator sim/orch"},
            {"name": "comp", "path": "sim/comp", "serves_properties": [p for p in props if CHECKS.get(p, {}).get("engine") == "comp"],
             "kind_free_text": "component simulations (rapid-driven) of evaluator, stores, readers, codecs, manager, scopes"},
        ],
        "checks": checks,
        "not_applicable": na,
        "notes": "Technique family: deterministic simulation with fault injection. See DESIGN.md. Known findings / fixed defects: known_findings.txt.",
    }
    json.dump(m, open("/verif/MANIFEST.json", "w"), indent=1)
    print("wrote MANIFEST.json with", len(checks), "checks,", len(na), "not claimed")

if __name__ == "__main__":
    main()
