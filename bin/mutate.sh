#!/bin/bash
# usage: mutate.sh <patch.diff> <property> [<property>...]
# Applies a patch to /repo's working tree, runs the quick check of each property,
# prints exit codes and VIOLATION lines, and restores the tree. Evidence files
# touched by the runs are restored too (they must describe the unchanged tree).
set -uo pipefail
# Sensitivity runs stop at the first violation (MUTATE_FULL=1 runs the whole quick check).
[ -n "${MUTATE_FULL:-}" ] || export VERIF_FASTFAIL=1
V=/verif
patch="$1"; shift
cd /repo
if ! git diff --quiet; then echo "mutate: /repo working tree is not clean" >&2; exit 2; fi
if ! git apply --check "$patch" 2>/dev/null; then echo "mutate: patch does not apply: $patch" >&2; exit 2; fi
git apply "$patch"
trap 'cd /repo && git checkout -- . && git clean -fdq -- . >/dev/null 2>&1; cd $V && git checkout -- evidence >/dev/null 2>&1' EXIT
for p in "$@"; do
  s=$(date +%s)
  out=$("$V/bin/verif" check "$p" --tier quick 2>&1); rc=$?
  e=$(date +%s)
  echo "MUTATE patch=$(basename $(dirname $patch))/$(basename $patch) property=$p exit=$rc secs=$((e-s))"
  echo "$out" | grep -E "VIOLATION|class=|KNOWN-FINDING|build failed|too many" | head -6 | cut -c1-400
  # keep the replay files of detections apart from real ones
  mkdir -p "$V/.work/mutant-replays"; mv "$V"/replays/*.json "$V/.work/mutant-replays/" 2>/dev/null || true
done
