#!/bin/bash
# Prepares /verif/.work: patched dependency copies, overlays, runtime overlay.
# Idempotent; everything is regenerated from the module cache, GOROOT and /repo.
set -euo pipefail
V=/verif
W=$V/.work
export GOFLAGS=-mod=mod GOPROXY=off GOSUMDB=off GOTOOLCHAIN=local
MODCACHE=$(go env GOMODCACHE)
GOROOT126=$(go1.26.8 env GOROOT)

mkdir -p "$W/compat" "$W/overlay" "$W/rt" "$W/bin" "$W/tmp"

if [ ! -f "$W/compat/.done" ]; then
  rm -rf "$W/compat/base" "$W/compat/bigmachine"
  cp -r "$MODCACHE/github.com/grailbio/base@v0.0.9" "$W/compat/base"
  cp -r "$MODCACHE/github.com/grailbio/bigmachine@v0.5.8" "$W/compat/bigmachine"
  chmod -R u+w "$W/compat"
  cp "$V/compat/cleanup_shim.go.txt" "$W/compat/base/errors/cleanup_shim.go"
  cp "$V/compat/maxretries_shim.go.txt" "$W/compat/base/retry/maxretries_shim.go"
  cp "$V/compat/once.go.txt" "$W/compat/base/sync/once/once.go"
  patch -s "$W/compat/base/limitbuf/limitbuf.go" "$V/compat/limitbuf.diff"
  patch -s "$W/compat/bigmachine/rpc/client.go" "$V/compat/bigmachine_rpc_client.diff"
  touch "$W/compat/.done"
fi

# runtime overlay (go1.26.8 only)
cp "$GOROOT126/src/runtime/rand.go" "$W/rt/rand.go"
cp "$GOROOT126/src/runtime/select.go" "$W/rt/select.go"
patch -s "$W/rt/rand.go" "$V/rt/rand.go.diff"
patch -s "$W/rt/select.go" "$V/rt/select.go.diff"

# /repo overlays: go.mod with go 1.17, exec/config.go stub. Regenerated on every call.
sed 's/^go 1\.12$/go 1.17/' /repo/go.mod > "$W/overlay/go.mod"
cp "$V/compat/exec_config_compat.go.txt" "$W/overlay/exec_config.go"
cat > "$W/overlay/overlay.json" <<EOF
{"Replace": {
  "/repo/go.mod": "$W/overlay/go.mod",
  "/repo/exec/config.go": "$W/overlay/exec_config.go",
  "$GOROOT126/src/runtime/rand.go": "$W/rt/rand.go",
  "$GOROOT126/src/runtime/select.go": "$W/rt/select.go"
}}
EOF
cat > "$W/overlay/overlay_nort.json" <<EOF
{"Replace": {
  "/repo/go.mod": "$W/overlay/go.mod",
  "/repo/exec/config.go": "$W/overlay/exec_config.go"
}}
EOF
